"""C03 — mass-action rate of each substance is net stoichiometry times k*prod(c^nu)"""
from collections import OrderedDict
from fractions import Fraction
import json
from lib.framework import Property
from . import kinetics_gen as kg
from .util import *


def _dict_line(d):
    return json.dumps([[k, show_rat(kg.to_frac(v))] for k, v in d.items()], separators=(',', ':'))


def _mtx_line(m):
    return '[' + ','.join(show_int_list(row) for row in m) + ']'


class C03(Property):
    pid = 'C03'
    title = ('the reported contribution of a reaction to a substance is (prod - reac + inact_prod - inact_reac) * k * prod(c_j^nu_j '
             'over the active reactants); a system rate is the sum over reactions (+ F*(c_feed - c) under CSTR), independent of the '
             'order of the reaction list; the array path (law_of_mass_action_rates, dCdt_list) agrees with the dict path')
    props_module = 'ChemModel.Props.C03'
    build_modules = ('ChemModel.Model.Kinetics', 'ChemModel.Driver.KineticsIO', 'ChemModel.Basic.Proto')
    driver = 'ChemModel/Driver/C03.lean'
    n_quick, n_thorough = 1200, 20000
    rule = ('random reaction systems (1-12 substances, 0-12 reactions, coefficients 0-3, repeated species, catalysts on both sides, '
            'inactive parts, species in several reactions, duplicated reactions, substances in no reaction), rate constants and '
            'concentrations as int / Fraction / sympy.Rational / dyadic float (exact), substance_keys None / system order / permuted / '
            'with repeats / subsets, CSTR feed over any subset of substances, a missing-variable stream (KeyError), permuted reaction '
            'lists, short conc / rates vectors and unknown keys for the array path; the backend= argument (math, numpy, sympy, chempy.units.Backend()) '
            'with every value type incl. Python ints beyond 2**63; get_odesys(rsys, cstr=True) on Species of any phase (default feed map, rates, rhs); HISTORIES: 3-15 calls on one ReactionSystem object (rates / array path / '
            'stoichiometry matrices / Reaction.rate) interleaved with set_param, replace_rxn, append (+= and list.append), delete, permute_rxns, '
            'sort_substances_inplace, each observation compared with the stateless model on the current state. A case is non-trivial when it is a distinct JSON '
            'value and has at least one reaction.')
    assumptions = ('rate parameters are plain numbers (the MassAction([param]) branch of Reaction.rate_expr); Expr parameters belong to C16, '
                   'symbolic variables to C04 (a small symbolic sample is checked by the oracle here)',
                   'stoichiometric coefficients are natural numbers (what Reaction.default_checks admit)',
                   'Reaction.keys() is a Python set: with substance_keys=None the order of the returned dict depends on the string hash '
                   'seed; it is compared as a mapping, with explicit substance_keys the insertion order is compared too',
                   'Reaction._init_stoich (sorting of plain dicts) is not modelled: the model is given the dictionaries as chempy stores them',
                   'float associativity is not modelled: order independence is exact only in exact arithmetic; float cases use dyadic values '
                   'on which every operation is exact',
                   'dCdt_list needs an indexable `rates`: the generator returned by law_of_mass_action_rates is wrapped in list()')
    clauses_without_theorem = (
        'float variables: sums are not associative, order independence and the closed form hold exactly only in exact arithmetic '
        '(theorems over commutative rings); float cases are restricted to dyadic values where every operation is exact',
        'symbolic variables: the theorems hold in any commutative ring (polynomial rings included); that sympy expressions behave '
        'as such a ring is sampled by the oracle (expand(diff) == 0), the generated ODE system is C04',
        'KeyError for a missing variable: modelled as a guard (missingVars) in front of the pure function, tied by correspondence',
        'Reaction._init_stoich (sorting of plain dicts) and Reaction.keys() order (a Python set): not modelled, compared as mappings',
        'results depend only on the current state of the objects (no stale caches after param re-assignment, in-place replacement, '
        'permutation, sort_substances_inplace): the model is a pure function, the real code is tied by history correspondence / oracle only',
        'the text level of Reaction.from_string (splitting on " + ", "->", ";", parentheses, `n * X`) is C12 s model; here only the multiset '
        'semantics of the written terms is modelled (mergeTerms, theorem written_terms_spec) and tied by the from_string correspondence',
        'species given by integer index (as_substance_index, negative indices included) and the KeyError-vs-ValueError difference of the '
        'MassAction branch on malformed input: modelled (lawOfMassActionRatesK) / correspondence; the agreement of the two branches on '
        'well-formed input is theorem law_branches_agree',
        'that MassAction([k]) and objects with as_RateExpr() denote the same mass-action expression as the plain number is '
        'correspondence / oracle (the model has one `Param.const`); named constants are theorem named_parameter_feeds_rate',
        'refusal of malformed reaction lines (no arrow, too many parts, unknown key): compared with C12 s text model, no theorem here',
        'the backend= argument (math / numpy / sympy / chempy.units.Backend()) does not change the value, also for Python ints beyond 2**63: '
        'correspondence and oracle only (the model has no backend)',
        'get_odesys(rsys, cstr=True) really builds the default feed map over all substances and hands it to rates(): theorem '
        'default_cstr_feeds_every_substance is about the modelled defaultCstr; the tie is the odesys_cstr correspondence (feed map, rates, rhs)',
        'integer-dtype numpy arrays and unit-carrying (quantities) concentrations / rate constants give the same values: oracle only',
        'array-valued (batched, mutable) concentrations: per-element equality, unmodified inputs and alias-free results are oracle only',
        'rates(..., ratexs=l): zip() drops the reactions beyond len(l) (modelled as sysRatesRatexs = sysRates on rs.take n); no theorem',
        'law_of_mass_action_rates with the DEFAULT variables=None and the literal dCdt_list(rsys, law_of_mass_action_rates(c, rsys)) '
        '(both repaired in /repo 4a92d03; model lawOfMassActionRatesDefaultVars / dCdtListOfGenerator): correspondence and oracle, '
        'array_path_eq_dict_path is stated for the list of rates',
        'which of several offending reactants decides the exception class of the array path (the FIRST in reaction/dict order): '
        'correspondence and oracle; array_path_success_and_refusal gives the exact success condition and the meaning of each class',
    )
    anchors = (('chempy/chemistry.py', 'Reaction.keys'), ('chempy/chemistry.py', 'Reaction.net_stoich'),
               ('chempy/chemistry.py', 'Reaction.all_reac_stoich'), ('chempy/chemistry.py', 'Reaction.active_reac_stoich'),
               ('chempy/chemistry.py', 'Reaction.all_prod_stoich'), ('chempy/chemistry.py', 'Reaction.active_prod_stoich'),
               ('chempy/chemistry.py', 'Reaction.rate_expr'), ('chempy/chemistry.py', 'Reaction.rate'),
               ('chempy/kinetics/rates.py', 'MassAction.active_conc_prod'), ('chempy/kinetics/rates.py', 'MassAction.rate_coeff'),
               ('chempy/kinetics/rates.py', 'MassAction.__call__'),
               ('chempy/reactionsystem.py', 'ReactionSystem.rates'), ('chempy/reactionsystem.py', 'ReactionSystem._stoichs'),
               ('chempy/reactionsystem.py', 'ReactionSystem.as_substance_index'),
               ('chempy/kinetics/ode.py', 'law_of_mass_action_rates'), ('chempy/kinetics/ode.py', 'dCdt_list'),
               ('chempy/util/stoich.py', 'get_coeff_mtx'),
               ('chempy/util/parsing.py', '_parse_multiplicity'), ('chempy/util/parsing.py', 'to_reaction'))

    # ---------------------------------------------------------------------------------------
    def generate(self, rng, n, tier):
        cases = []
        for i in range(n):
            sysd = kg.rand_system(rng, tier)
            sysd['alias'] = rng.random() < 0.2          # substances registered under keys != Substance.name
            subst, rxns, num = sysd['subst'], sysd['rxns'], sysd['num']
            r = rng.random()
            if i % 9 == 4:
                cases.append(self._history(rng, tier))
                continue
            if i % 25 == 7:
                cases.append(self._odesys_cstr(rng, tier))
                continue
            if i % 12 == 2:
                cases.append(self._from_string(rng, tier))
                continue
            if i % 20 == 9:
                cases.append(self._law_kinds(rng, tier))
                continue
            if i % 30 == 11:
                cases.append(self._malformed_line(rng, tier))
                continue
            if r < 0.18 and rxns:
                c = {'op': 'rxn_rate', 'rxn': dict(rng.choice(rxns)), 'vars': sysd['vars'], 'num': num,
                     'keys': self._keys(rng, subst, allow_none=False), 'backend': self._backend(rng)}
                self._param_forms(rng, [c['rxn']], c, num)
                m = rng.random()
                if m < 0.08:
                    c['vars'] = None                                  # Reaction.rate(variables=None)
                    c['backend'] = None
                elif m < 0.2 and c['rxn'].get('pform', 'plain') == 'plain':
                    c['ratex_value'] = kg.rand_rat(rng, num)          # Reaction.rate(..., ratex=<number>)
                if c.get('ratex_value') is None and rng.random() < 0.3:
                    c['keys'] = None                                  # DEFAULT substance_keys: the reaction's own species
                if c['vars'] is not None:
                    self._maybe_drop_var(rng, c)
            elif r < 0.62:
                c = dict(sysd, op='sys_rates', keys=self._keys(rng, subst, allow_none=True), cstr=None, backend=self._backend(rng))
                if rng.random() < 0.4:
                    fed = rng.sample(subst, rng.randint(0, len(subst)))
                    c['cstr'] = {'fr': 'feedratio', 'fc': [[s, 'fc_' + s] for s in fed]}
                    c['vars'] = c['vars'] + [['feedratio', kg.rand_rat(rng, num)]] + [['fc_' + s, kg.rand_rat(rng, num)] for s in fed]
                perm = list(range(len(rxns)))
                rng.shuffle(perm)
                c['perm'] = perm
                if num == 'bigint' and rng.random() < 0.5:
                    c['backend'] = 'numpy'
                c['rxns'] = [dict(x) for x in c['rxns']]
                self._param_forms(rng, c['rxns'], c, num)
                if rng.random() < 0.12:
                    # rates(..., ratexs=[None] * n): zip(self.rxns, ratexs) truncates to the shorter list
                    c['ratexs_len'] = max(0, len(rxns) + rng.choice([-2, -1, -1, 0, 1]))
                self._maybe_drop_var(rng, c)
            elif r < 0.8:
                c = dict(sysd, op='array_path', keys=list(subst))
                c['conc'] = [v for _, v in sysd['vars']]
                m = rng.random()
                if m < 0.06 and c['conc']:
                    c['conc'] = c['conc'][:-1]                       # conc shorter than the system
                elif m < 0.12 and len(subst) > 1:
                    c['keys'] = c['keys'][:-1]                       # a reaction may now name an unknown substance
                    c['conc'] = c['conc'][:-1]
            elif r < 0.86:
                c = dict(sysd, op='dcdt', keys=list(subst))
                k = len(rxns) + rng.choice([0, 0, 0, 1, -1])
                c['rates'] = [kg.rand_rat(rng, num) for _ in range(max(0, k))]
            elif r < 0.93:
                c = dict(sysd, op='stoichs', keys=self._keys(rng, subst, allow_none=False))
            elif r < 0.97:
                st = []
                for _ in range(rng.randint(0, 4)):
                    a = [[k, rng.randint(-3, 4)] for k in rng.sample(subst, rng.randint(0, len(subst)))]
                    b = [[k, rng.randint(-3, 4)] for k in rng.sample(subst, rng.randint(0, len(subst)))]
                    st.append([a, b])
                c = {'op': 'coeff_mtx', 'substances': self._keys(rng, subst, allow_none=False), 'stoichs': st}
            else:
                # symbolic variables (oracle only; the polynomial identity itself is C04's subject)
                small = kg.rand_system(rng, 'quick', num='int', smax=4, rmax=3)
                c = dict(small, op=None, kind='symbolic')
            cases.append(c)
        return cases

    @staticmethod
    def _param_forms(rng, specs, c, num):
        """the forms of Reaction.param that rate_expr turns into mass action: number, MassAction([k]), object with as_RateExpr(),
        string (named rate constant looked up in variables)"""
        if rng.random() < 0.6:
            return
        for j, x in enumerate(specs):
            f = rng.choice(['plain', 'massaction', 'convertible', 'key'])
            if f == 'key':
                x['pform'], x['pkey'] = 'key', 'k_%d' % j
                if c['vars'] is not None and not any(k == x['pkey'] for k, _ in c['vars']):
                    c['vars'] = c['vars'] + [[x['pkey'], x['param']]]
            elif f != 'plain':
                x['pform'] = f

    @staticmethod
    def _backend(rng):
        return rng.choice([None, None, 'math', 'numpy', 'sympy', 'units'])

    def _from_string(self, rng, tier):
        """a reaction entered as TEXT (Reaction.from_string / ReactionSystem.from_string) with repeated terms on a side"""
        sysd = kg.rand_system(rng, tier, num=rng.choice(['int', 'Fraction']), smax=5, rmax=2)
        subst = sysd['subst']
        spec = kg.rand_reaction(rng, subst, 'int', 3, inactive_p=0.6)
        spec['param'] = rng.randint(1, 9)
        terms, line = kg.written_reaction(rng, spec)
        c = {'op': 'from_string', 'subst': subst, 'terms': terms, 'line': line, 'vars': sysd['vars'], 'num': sysd['num'],
             'keys': self._keys(rng, subst, allow_none=False)}
        m = rng.random()
        stoich = line.split(';')[0]
        if m < 0.2:                                   # quoted parameter: a NAMED rate constant, looked up in variables
            c['line'] = stoich + "; 'k_named'"
            c['param_key'] = 'k_named'
            if rng.random() < 0.85:
                c['vars'] = c['vars'] + [['k_named', terms['param']]]
        elif m < 0.35:                                # further `; key=value` parts
            c['line'] = line + "; name='r%d', ref='doi:x'" % rng.randint(0, 9)
        elif m < 0.5:                                 # no parameter in the text: param= keyword
            c['line'] = stoich.rstrip()
            c['param_kw'] = True
        return c

    def _law_kinds(self, rng, tier):
        """law_of_mass_action_rates over the branches of `rxn.param`: number / MassAction instance / another RateExpr (refused);
        optionally the reactions name their species by INDEX (as_substance_index accepts ints)"""
        sysd = kg.rand_system(rng, tier, num=rng.choice(['int', 'Fraction']), smax=5, rmax=4)
        subst = sysd['subst']
        if not sysd['rxns']:
            sysd['rxns'] = [kg.rand_reaction(rng, subst, sysd['num'], 3)]
        rxns = [dict(x, ordered=True) for x in sysd['rxns']]
        c = {'op': 'law_kinds', 'subst': subst, 'rxns': rxns, 'num': sysd['num'], 'keys': list(subst),
             'conc': [v for _, v in sysd['vars']], 'int_keys': False}
        m = rng.random()
        if m < 0.25:
            c['int_keys'] = True                              # plain parameters only: the MassAction branch looks up by key
        else:
            for x in rxns:
                x['pform'] = rng.choice(['plain', 'plain', 'massaction', 'massaction', 'other'] if m < 0.6 else ['plain', 'massaction'])
            if rng.random() < 0.1 and c['conc']:
                c['conc'] = c['conc'][:-1]
            elif rng.random() < 0.1 and len(subst) > 1:
                c['keys'], c['conc'] = c['keys'][:-1], c['conc'][:-1]
        m2 = rng.random()
        if m2 < 0.15:
            c['variables_none'] = True           # the DEFAULT variables=None of law_of_mass_action_rates
        elif m2 < 0.3 and not c['int_keys']:     # (integer-keyed reactions have no net stoichiometry over the named substances)
            c['as_generator'] = True             # the literal dCdt_list(rsys, law_of_mass_action_rates(c, rsys)): a generator is not subscriptable
        return c

    def _law_kinds_run(self, c):
        from chempy import ReactionSystem
        from chempy.kinetics.ode import law_of_mass_action_rates
        num = c['num']
        specs = c['rxns']
        if c['int_keys']:
            idx = {k: i for i, k in enumerate(c['keys'])}
            specs = [dict(x, **{p: [[idx[k], n] for k, n in x[p]] for p in ('reac', 'prod', 'inact_reac', 'inact_prod')}) for x in specs]
        rsys = ReactionSystem([kg.mk_reaction(x, num) for x in specs], list(c['keys']), checks=())
        conc = [kg.to_num(v, num) for v in c['conc']]
        if c.get('as_generator'):
            from chempy.kinetics.ode import dCdt_list
            return dCdt_list(rsys, law_of_mass_action_rates(conc, rsys, variables={}))
        if c.get('variables_none'):
            return list(law_of_mass_action_rates(conc, rsys))
        return list(law_of_mass_action_rates(conc, rsys, variables={}))

    def _malformed_line(self, rng, tier):
        """reaction lines the text reader must refuse (ValueError): no arrow, a term with too many parts, an unknown species"""
        sysd = kg.rand_system(rng, tier, num='int', smax=4, rmax=1)
        subst = sysd['subst']
        spec = kg.rand_reaction(rng, subst, 'int', 3)
        spec['param'] = rng.randint(1, 9)
        if not spec['reac'] and not spec['prod']:
            spec['reac'] = [[subst[0], 1]]
        terms, line = kg.written_reaction(rng, spec)
        m = rng.choice(['no_arrow', 'too_many', 'unknown', 'fine'])
        if m == 'no_arrow':
            line = line.replace('->', rng.choice(['=', '>', '- >', '']))
        elif m == 'too_many':
            line = line.replace(' -> ', ' + 2 %s %s -> ' % (subst[0], subst[-1]), 1) if ' -> ' in line else '2 %s %s %s' % (subst[0], subst[-1], line)
        elif m == 'unknown':
            line = line.replace(' -> ', ' + Q_unknown -> ', 1) if ' -> ' in line else 'Q_unknown + ' + line
        return {'op': 'parse_refusal', 'keys': list(subst), 'line': line, 'kind': m}

    def _odesys_cstr(self, rng, tier):
        """stirred-tank conditions requested through get_odesys(rsys, cstr=True) (the DEFAULT feed map), on systems whose substances
        are Species of any phase"""
        sysd = kg.rand_system(rng, tier, num=rng.choice(['int', 'Rational']), smax=5, rmax=3)
        subst = sysd['subst']
        if not sysd['rxns']:
            sysd['rxns'] = [kg.rand_reaction(rng, subst, sysd['num'], 3)]
        for x in sysd['rxns']:
            x['ordered'] = True
        vars_ = sysd['vars'] + [['feedratio', kg.rand_rat(rng, 'Fraction')]] + [['fc_' + k, kg.rand_rat(rng, 'Fraction')] for k in subst]
        return {'op': 'odesys_cstr', 'subst': subst, 'rxns': sysd['rxns'], 'vars': vars_, 'num': 'Rational',
                'phases': [rng.choice([0, 0, 1, 2]) for _ in subst]}

    def _odesys_cstr_run(self, c):
        import sympy
        from chempy import ReactionSystem, Species
        from chempy.kinetics.ode import get_odesys
        subs = OrderedDict((k, Species(k, phase_idx=p)) for k, p in zip(c['subst'], c['phases']))
        rsys = ReactionSystem([kg.mk_reaction(x, 'Rational') for x in c['rxns']], subs, checks=())
        odesys, extra = get_odesys(rsys, cstr=True)
        return rsys, odesys, extra

    # ---- histories: several calls on ONE ReactionSystem object with mutations in between ------------------------
    def _history(self, rng, tier):
        sysd = kg.rand_system(rng, tier, smax=6, rmax=4)
        subst, num = sysd['subst'], sysd['num']
        cmax = 2 if num == 'float' else 3
        if not sysd['rxns']:
            sysd['rxns'] = [kg.rand_reaction(rng, subst, num, cmax)]
        vars_ = sysd['vars'] + [['feedratio', kg.rand_rat(rng, num)]] + [['fc_' + k, kg.rand_rat(rng, num)] for k in subst]
        nr = len(sysd['rxns'])
        steps = []

        def observe():
            o = rng.random()
            if o < 0.55:
                keys = rng.choice([None, 'ORDER', 'ORDER', self._keys(rng, subst, allow_none=False)])
                cstr = None
                if rng.random() < 0.3:
                    cstr = {'fr': 'feedratio', 'fc': [[k, 'fc_' + k] for k in rng.sample(subst, rng.randint(0, len(subst)))]}
                return {'do': 'obs', 'op': 'sys_rates', 'keys': keys, 'cstr': cstr, 'backend': self._backend(rng)}
            if o < 0.75:
                return {'do': 'obs', 'op': 'array_path'}
            if o < 0.9:
                return {'do': 'obs', 'op': 'stoichs', 'keys': rng.choice(['ORDER', self._keys(rng, subst, allow_none=False)])}
            return {'do': 'obs', 'op': 'rxn_rate', 'i': rng.randrange(nr) if nr else 0, 'keys': 'ORDER'}

        steps.append(observe())
        for _ in range(rng.randint(2, 6)):
            m = rng.random()
            if m < 0.3 and nr:
                steps.append({'do': 'set_param', 'i': rng.randrange(nr), 'param': kg.rand_rat(rng, num)})
            elif m < 0.5 and nr:
                steps.append({'do': 'replace_rxn', 'i': rng.randrange(nr), 'rxn': kg.rand_reaction(rng, subst, num, cmax)})
            elif m < 0.62:
                steps.append({'do': 'append', 'rxn': kg.rand_reaction(rng, subst, num, cmax), 'via': rng.choice(['iadd', 'list'])})
                nr += 1
            elif m < 0.7 and nr > 1:
                steps.append({'do': 'delete', 'i': rng.randrange(nr)})
                nr -= 1
            elif m < 0.82:
                steps.append({'do': 'sort_substances'})
            elif nr > 1:
                perm = list(range(nr))
                rng.shuffle(perm)
                steps.append({'do': 'permute_rxns', 'perm': perm})
            else:
                steps.append({'do': 'sort_substances'})
            for _ in range(rng.randint(1, 2)):
                steps.append(observe())
        return {'op': 'history', 'subst': subst, 'rxns': sysd['rxns'], 'vars': vars_, 'num': num, 'steps': steps,
                'alias': rng.random() < 0.2}

    @staticmethod
    def _apply_pure(state, st):
        """the mutation on the harness' own (pure) description of the system"""
        d = st['do']
        if d == 'set_param':
            state['rxns'][st['i']] = dict(state['rxns'][st['i']], param=st['param'])
        elif d == 'replace_rxn':
            state['rxns'][st['i']] = st['rxn']
        elif d == 'append':
            state['rxns'].append(st['rxn'])
        elif d == 'delete':
            del state['rxns'][st['i']]
        elif d == 'sort_substances':
            state['subst'] = sorted(state['subst'])
        elif d == 'permute_rxns':
            state['rxns'] = [state['rxns'][i] for i in st['perm']]
        else:
            raise ValueError(d)

    @staticmethod
    def _apply_real(rsys, st, num):
        """the same mutation through chempy's public, mutable API"""
        d = st['do']
        if d == 'set_param':
            rsys.rxns[st['i']].param = kg.to_num(st['param'], num)
        elif d == 'replace_rxn':
            rsys.rxns[st['i']] = kg.mk_reaction(st['rxn'], num)
        elif d == 'append':
            if st['via'] == 'iadd':
                rsys += [kg.mk_reaction(st['rxn'], num)]
            else:
                rsys.rxns.append(kg.mk_reaction(st['rxn'], num))
        elif d == 'delete':
            del rsys.rxns[st['i']]
        elif d == 'sort_substances':
            rsys.sort_substances_inplace()
        elif d == 'permute_rxns':
            rsys.rxns[:] = [rsys.rxns[i] for i in st['perm']]
        else:
            raise ValueError(d)
        return rsys

    def _single(self, state, st, c):
        """the observation `st` as a stand-alone single-step case on the current state"""
        order = list(state['subst'])
        keys = st.get('keys')
        keys = order if keys == 'ORDER' else keys
        base = {'subst': order, 'rxns': [dict(r) for r in state['rxns']], 'vars': c['vars'], 'num': c['num']}
        if st['op'] == 'sys_rates':
            return dict(base, op='sys_rates', keys=keys, cstr=st['cstr'], perm=list(range(len(state['rxns']))), backend=st.get('backend'))
        if st['op'] == 'array_path':
            vd = dict(map(tuple, ((k, json.dumps(v)) for k, v in c['vars'])))
            return dict(base, op='array_path', keys=order, conc=[json.loads(vd[k]) for k in order])
        if st['op'] == 'stoichs':
            return dict(base, op='stoichs', keys=keys)
        if st['op'] == 'rxn_rate':
            if not state['rxns']:
                return dict(base, op='stoichs', keys=order)
            i = st['i'] % len(state['rxns'])
            return {'op': 'rxn_rate', 'rxn': state['rxns'][i], 'i': i, 'vars': c['vars'], 'num': c['num'], 'keys': keys}
        raise ValueError(st['op'])

    def _keys(self, rng, subst, allow_none):
        r = rng.random()
        if allow_none and r < 0.35:
            return None
        ks = list(subst)
        if r < 0.6:
            return ks
        rng.shuffle(ks)
        if r < 0.75:
            return ks
        if r < 0.85:
            return ks[:rng.randint(0, len(ks))]
        if r < 0.93 and ks:
            return ks + [rng.choice(ks) for _ in range(rng.randint(1, 2))]       # repeated keys
        return ks + ['Q_unused']

    def _maybe_drop_var(self, rng, c):
        if rng.random() < 0.07 and c['vars']:
            c['vars'] = list(c['vars'])
            del c['vars'][rng.randrange(len(c['vars']))]

    # ---------------------------------------------------------------------------------------
    def model_case(self, c):
        if not c.get('op'):
            return None
        num = c.get('num', 'Fraction')
        if c['op'] == 'history':
            state = {'subst': list(c['subst']), 'rxns': [dict(r) for r in c['rxns']]}
            msteps = []
            for st in c['steps']:
                if st['do'] == 'obs':
                    msteps.append(self.model_case(self._single(state, st, c)))
                else:
                    self._apply_pure(state, st)
            return {'op': 'history', 'steps': msteps, 'orig': c}
        if c['op'] == 'from_string':
            return dict(c, op='terms_rate')
        if c['op'] == 'law_kinds':
            kinds = [{'plain': 'plain', 'massaction': 'massaction', 'other': 'other'}[x.get('pform', 'plain')] for x in c['rxns']]
            return dict(c, op='law_rates_k', kinds=kinds, rxns=[kg.readback(kg.mk_reaction(dict(x, pform='plain'), num), x) for x in c['rxns']])
        if c['op'] == 'odesys_cstr':
            return dict(c, op='sys_rates_default_cstr', observed='odesys_cstr',
                        rxns=[kg.readback(kg.mk_reaction(s, num), s) for s in c['rxns']])
        m = dict(c)
        if 'rxn' in c:
            m['rxn'] = kg.readback(kg.mk_reaction(c['rxn'], num), c['rxn'])
        if 'rxns' in c:
            m['rxns'] = [kg.readback(kg.mk_reaction(s, num), s) for s in c['rxns']]
        return m

    @staticmethod
    def _subst(c, keys):
        """the `substances` argument: a list of keys, or (alias cases) an ordered mapping whose keys differ from Substance.name"""
        if c.get('alias'):
            from chempy import Substance
            return OrderedDict((k, Substance('name_of_' + k)) for k in keys)
        return list(keys)

    def _vars(self, c):
        if c['vars'] is None:
            return None
        return {k: kg.to_num(v, c['num']) for k, v in c['vars']}

    def _observe(self, rsys, c):
        """one observation on an existing ReactionSystem object -> canonical line"""
        from chempy.kinetics.ode import law_of_mass_action_rates, dCdt_list
        op = c['op']
        num = c.get('num', 'Fraction')
        try:
            if op == 'rxn_rate':
                return _dict_line(rsys.rxns[c['i']].rate(self._vars(c), kg.get_backend(c.get('backend')), substance_keys=c['keys']))
            if op == 'sys_rates':
                cstr = None
                if c['cstr'] is not None:
                    cstr = (c['cstr']['fr'], OrderedDict(map(tuple, c['cstr']['fc'])))
                kw = {'ratexs': [None] * c['ratexs_len']} if c.get('ratexs_len') is not None else {}
                return _dict_line(rsys.rates(self._vars(c), kg.get_backend(c.get('backend')), substance_keys=c['keys'], cstr_fr_fc=cstr, **kw))
            if op == 'array_path':
                conc = [kg.to_num(v, num) for v in c['conc']]
                rates = list(law_of_mass_action_rates(conc, rsys))
                a = show_rat_list(map(kg.to_frac, rates))
                try:
                    b = show_rat_list(map(kg.to_frac, dCdt_list(rsys, rates)))
                except Exception as e:
                    b = exc_name(e)
                return a + ';' + b
            if op == 'dcdt':
                return show_rat_list(map(kg.to_frac, dCdt_list(rsys, [kg.to_num(v, num) for v in c['rates']])))
            if op == 'stoichs':
                ms = [rsys.net_stoichs(c['keys']), rsys.all_reac_stoichs(c['keys']), rsys.active_reac_stoichs(c['keys']),
                      rsys.all_prod_stoichs(c['keys']), rsys.active_prod_stoichs(c['keys'])]
                return ';'.join(_mtx_line(m.tolist()) for m in ms)
        except Exception as e:
            return exc_name(e)
        return '!unknown-op'

    def impl(self, c):
        from chempy import ReactionSystem
        from chempy.util.stoich import get_coeff_mtx
        op = c['op']
        num = c.get('num', 'Fraction')
        try:
            if op == 'history':
                o = c['orig']
                num = o['num']
                rsys = ReactionSystem([kg.mk_reaction(s, num) for s in o['rxns']], self._subst(o, o['subst']), checks=())
                outs, j = [], 0
                for st in o['steps']:
                    if st['do'] == 'obs':
                        outs.append(self._observe(rsys, c['steps'][j]))
                        j += 1
                    else:
                        rsys = self._apply_real(rsys, st, num)
                return ' | '.join(outs)
            if op == 'rxn_rate':
                rxn = kg.mk_reaction(c['rxn'], num)
                kw = {'ratex': kg.to_num(c['ratex_value'], num)} if c.get('ratex_value') is not None else {}
                return _dict_line(rxn.rate(self._vars(c), kg.get_backend(c.get('backend')), substance_keys=c['keys'], **kw))
            if op == 'law_rates_k':
                return show_rat_list(map(kg.to_frac, self._law_kinds_run(c)))
            if op == 'parse_refusal':
                from chempy import Reaction
                try:
                    Reaction.from_string(c['line'], list(c['keys']), checks=())
                    return 'ok'
                except ValueError:
                    return 'ValueError'
            if op == 'terms_rate':
                from chempy import Reaction
                kw = {'param': int(kg.frac(c['terms']['param']))} if c.get('param_kw') else {}
                rxn = Reaction.from_string(c['line'], list(c['subst']), checks=(), **kw)
                dj = lambda d: json.dumps([[k, int(v)] for k, v in d.items()], separators=(',', ':'))
                return ';'.join([dj(rxn.reac), dj(rxn.prod), dj(rxn.inact_reac), dj(rxn.inact_prod),
                                 show_int_list(rxn.net_stoich(c['keys'])),
                                 _dict_line(rxn.rate(self._vars(c), substance_keys=c['keys']))])
            if op == 'sys_rates_default_cstr':
                rsys, odesys, extra = self._odesys_cstr_run(c)
                fr, fc = extra['cstr_fr_fc']
                vars_ = {k: kg.to_num(v, 'Fraction') for k, v in c['vars']}
                return '%s;%s;%s' % (fr, json.dumps([[a, b] for a, b in fc.items()], separators=(',', ':')),
                                     _dict_line(rsys.rates(vars_, substance_keys=list(rsys.substances), cstr_fr_fc=extra['cstr_fr_fc'])))
            if op == 'coeff_mtx':
                return _mtx_line(get_coeff_mtx(c['substances'], [(OrderedDict(map(tuple, a)), OrderedDict(map(tuple, b)))
                                                                 for a, b in c['stoichs']]).tolist())
            rxns = [kg.mk_reaction(s, num) for s in c['rxns']]
            rsys = ReactionSystem(rxns, self._subst(c, c['keys'] if op in ('array_path', 'dcdt') else c['subst']), checks=())
            return self._observe(rsys, c)
        except Exception as e:
            return exc_name(e)

    def same(self, c, io, mo):
        if c['op'] == 'terms_rate':
            a, b = io.split(';'), mo.split(';')
            if len(a) != 6 or len(b) != 6:
                return io == mo
            # chempy sorts the plain dicts it parsed: the four dictionaries are compared as mappings, the rest literally
            asmap = lambda x: sorted(map(tuple, json.loads(x)))
            return all(asmap(x) == asmap(y) for x, y in zip(a[:4], b[:4])) and a[4:] == b[4:]
        if c['op'] == 'history':
            a, b = io.split(' | '), mo.split(' | ')
            return len(a) == len(b) == len(c['steps']) and all(self.same(m, x, y) for m, x, y in zip(c['steps'], a, b))
        if c['op'] in ('sys_rates', 'rxn_rate') and c['keys'] is None and io[:1] == '[' and mo[:1] == '[':
            # Reaction.keys() is a set: only the mapping is specified, not its order
            return sorted(map(tuple, json.loads(io))) == sorted(map(tuple, json.loads(mo)))
        return io == mo

    # ---------------------------------------------------------------------------------------
    def oracle(self, c):
        """The property on the real code, computed here with Fractions straight from the case."""
        op = c.get('op')
        if op == 'rxn_rate':
            return self._oracle_rxn(c)
        if op == 'sys_rates':
            return self._oracle_sys(c)
        if op == 'array_path':
            return self._oracle_array(c)
        if op is None and c.get('kind') == 'symbolic':
            return self._oracle_symbolic(c)
        if op == 'history':
            return self._oracle_history(c)
        if op == 'odesys_cstr':
            return self._oracle_odesys_cstr(c)
        if op == 'from_string':
            return self._oracle_from_string(c)
        if op == 'law_kinds':
            return self._oracle_law_kinds(c)
        if op == 'parse_refusal':
            from chempy import Reaction
            try:
                Reaction.from_string(c['line'], list(c['keys']), checks=())
                ok = True
            except ValueError:
                ok = False
            except Exception as e:
                return 'from_string(%r) raised %s instead of ValueError' % (c['line'], exc_name(e))
            if ok != (c['kind'] == 'fine'):
                return 'reaction line %r (%s) was %s' % (c['line'], c['kind'], 'accepted' if ok else 'refused')
            return None
        return None

    def _oracle_law_kinds(self, c):
        """every yielded rate is k * prod(c^nu) whatever form the parameter has; a RateExpr that is no MassAction is refused"""
        well = len(c['conc']) == len(c['subst']) and len(c['keys']) == len(c['subst'])
        if not well:
            return None                      # malformed stream: decided by the correspondence
        conc = dict(zip(c['keys'], map(kg.frac, c['conc'])))
        try:
            got = [kg.to_frac(x) for x in self._law_kinds_run(c)]
        except ValueError:
            return None if any(x.get('pform') == 'other' for x in c['rxns']) else 'law_of_mass_action_rates raised ValueError on mass-action parameters'
        except Exception as e:
            return 'law_of_mass_action_rates raised %s' % exc_name(e)
        if any(x.get('pform') == 'other' for x in c['rxns']):
            return 'a rate expression that is not of mass-action type was not refused'
        want = [kg.rate_of(dict(x, pform='plain'), conc) for x in c['rxns']]
        if c.get('as_generator'):
            # the literal expression of the property text: dCdt_list(rsys, law_of_mass_action_rates(c, rsys)) = N^T r
            want = [sum(kg.net_of(x, k) * r for x, r in zip(c['rxns'], want)) for k in c['keys']]
            if c['int_keys']:
                return None          # integer-keyed reactions have no net stoichiometry over the named substances (documented)
        if got != want:
            return '%s%s gives %s, expected %s' % ('dCdt_list(rsys, law_of_mass_action_rates(...))' if c.get('as_generator') else
                                                  'law_of_mass_action_rates', ' (species given by index)' if c['int_keys'] else '', got, want)
        return None

    def _oracle_from_string(self, c):
        """rates = net * k * prod(c^nu) with net and nu counted over the MULTISET of written terms"""
        from chempy import Reaction, ReactionSystem
        t = c['terms']
        vars_ = self._vars(c)
        conc = {k: kg.to_frac(v) for k, v in vars_.items()}
        rate = kg.frac(t['param'])
        for n, k in t['reac']:
            rate *= conc[k] ** n
        want = {k: kg.terms_net(t, k) * rate for k in c['subst']}
        kw = {'param': int(kg.frac(t['param']))} if c.get('param_kw') else {}
        if c.get('param_key'):
            if c['param_key'] not in vars_:
                try:
                    Reaction.from_string(c['line'], list(c['subst']), checks=()).rate(vars_, substance_keys=c['subst'])
                except KeyError:
                    return None
                return 'named rate constant %r is not among the variables but Reaction.rate did not fail' % c['param_key']
        try:
            rxn = Reaction.from_string(c['line'], list(c['subst']), checks=(), **kw)
            got = {k: kg.to_frac(v) for k, v in rxn.rate(vars_, substance_keys=c['subst']).items()}
            rsys = ReactionSystem.from_string(c['line'], list(c['subst']), rxn_parse_kwargs=dict(kw, checks=()), checks=(),
                                              substance_factory=lambda k: __import__('chempy').Substance(k))
            got2 = {k: kg.to_frac(v) for k, v in rsys.rates(vars_, substance_keys=c['subst']).items()}
        except Exception as e:
            return 'from_string(%r) raised %s: %s' % (c['line'], exc_name(e), str(e)[:100])
        for name, g in (('Reaction.from_string(...).rate', got), ('ReactionSystem.from_string(...).rates', got2)):
            if g != want:
                k = next(k for k in c['subst'] if g.get(k) != want[k])
                return '%s for %r: d[%s]/dt = %s, the written terms give %s * %s' % (name, c['line'], k, g.get(k), kg.terms_net(t, k), rate)
        return None

    def _oracle_odesys_cstr(self, c):
        """cstr=True: EVERY substance gets F*(c_feed - c); checked on extra['cstr_fr_fc'], on rates() with it and on odesys.exprs"""
        import sympy
        try:
            rsys, odesys, extra = self._odesys_cstr_run(c)
        except Exception as e:
            return 'get_odesys(rsys, cstr=True) raised %s: %s' % (exc_name(e), str(e)[:120])
        subst = c['subst']
        conc = {k: kg.frac(v) for k, v in c['vars']}
        want = {k: sum(kg.net_of(x, k) * kg.rate_of(x, conc) for x in c['rxns']) + conc['feedratio'] * (conc['fc_' + k] - conc[k])
                for k in subst}
        got = rsys.rates({k: v for k, v in conc.items()}, cstr_fr_fc=extra['cstr_fr_fc'])
        gotf = {k: kg.to_frac(v) for k, v in got.items()}
        if gotf != want:
            k = next(k for k in subst if gotf.get(k) != want[k])
            return ('get_odesys(cstr=True): rates with the returned feed map give d[%s]/dt = %s (phase_idx %d), reactions + F*(c_feed - c) = %s'
                    % (k, gotf.get(k), c['phases'][subst.index(k)], want[k]))
        if list(odesys.names) != subst:
            return 'odesys.names differ from the substance keys'
        sub = {odesys.dep[i]: sympy.Rational(conc[k].numerator, conc[k].denominator) for i, k in enumerate(subst)}
        for pn, ps in zip(odesys.param_names, odesys.params):
            sub[ps] = sympy.Rational(conc[pn].numerator, conc[pn].denominator)
        for k, e in zip(subst, odesys.exprs):
            v = kg.to_frac(sympy.sympify(e).subs(sub))
            if v != want[k]:
                return 'get_odesys(cstr=True): rhs of %s evaluates to %s, reactions + F*(c_feed - c) = %s' % (k, v, want[k])
        return None

    @staticmethod
    def _live_spec(rxn):
        """a reaction as the object's CURRENT public attributes describe it"""
        return {'reac': [[k, v] for k, v in rxn.reac.items()], 'prod': [[k, v] for k, v in rxn.prod.items()],
                'inact_reac': [[k, v] for k, v in rxn.inact_reac.items()], 'inact_prod': [[k, v] for k, v in rxn.inact_prod.items()],
                'param': kg.to_frac(rxn.param)}

    def _oracle_history(self, c):
        """After every step: what rates / N^T r must be, recomputed from the object's current rxns, params and substance order."""
        from chempy import ReactionSystem
        from chempy.kinetics.ode import law_of_mass_action_rates, dCdt_list
        num = c['num']
        vars_ = self._vars(c)
        conc = {k: kg.to_frac(v) for k, v in vars_.items()}
        rsys = ReactionSystem([kg.mk_reaction(s, num) for s in c['rxns']], self._subst(c, c['subst']), checks=())
        state = {'subst': list(c['subst']), 'rxns': [dict(r) for r in c['rxns']]}
        for n, st in enumerate(c['steps']):
            if st['do'] != 'obs':
                rsys = self._apply_real(rsys, st, num)
                self._apply_pure(state, st)
                continue
            where = 'step %d (%s after %s)' % (n, st['op'], [x['do'] for x in c['steps'][:n] if x['do'] != 'obs'])
            live = [self._live_spec(r) for r in rsys.rxns]
            order = list(rsys.substances)
            if order != state['subst'] or len(live) != len(state['rxns']) or any(
                    kg.frac(a['param']) != b['param'] or any(dict(map(tuple, a[p])) != dict(map(tuple, b[p]))
                                                             for p in ('reac', 'prod', 'inact_reac', 'inact_prod'))
                    for a, b in zip(state['rxns'], live)):
                return where + ': the public state of the system is not what the mutations should have produced'
            if st['op'] == 'sys_rates':
                keys = order if st['keys'] == 'ORDER' else st['keys']
                cstr = None if st['cstr'] is None else (st['cstr']['fr'], OrderedDict(map(tuple, st['cstr']['fc'])))
                got = {k: kg.to_frac(v) for k, v in rsys.rates(vars_, kg.get_backend(st.get('backend')), substance_keys=keys, cstr_fr_fc=cstr).items()}
                want = {}
                for s in live:
                    rate = kg.rate_of(s, conc)
                    for k in (list(dict.fromkeys(keys)) if keys is not None else kg.spec_keys(s)):
                        want[k] = want.get(k, 0) + kg.net_of(s, k) * rate
                if cstr:
                    for sk, fck in st['cstr']['fc']:
                        want[sk] = want.get(sk, 0) + conc['feedratio'] * (conc[fck] - conc[sk])
                if got != want:
                    k = next(k for k in list(want) + list(got) if want.get(k) != got.get(k))
                    return '%s: ReactionSystem.rates gives d[%s]/dt = %s, the current reactions and constants give %s' % (
                        where, k, got.get(k), want.get(k))
            elif st['op'] == 'array_path':
                f = [kg.to_frac(x) for x in dCdt_list(rsys, list(law_of_mass_action_rates([vars_[k] for k in order], rsys)))]
                want = [sum(kg.net_of(s, k) * kg.rate_of(s, conc) for s in live) for k in order]
                if f != want:
                    return '%s: dCdt_list gives %s, the current reactions give %s' % (where, f, want)
            elif st['op'] == 'stoichs':
                keys = order if st['keys'] == 'ORDER' else st['keys']
                if rsys.net_stoichs(keys).tolist() != [[kg.net_of(s, k) for k in keys] for s in live]:
                    return where + ': net_stoichs differs from the current reactions'
            elif st['op'] == 'rxn_rate' and live:
                i = st['i'] % len(live)
                got = {k: kg.to_frac(v) for k, v in rsys.rxns[i].rate(vars_, substance_keys=order).items()}
                if got != {k: kg.net_of(live[i], k) * kg.rate_of(live[i], conc) for k in order}:
                    return where + ': Reaction.rate differs from the current reaction'
        return None

    def _needed_missing(self, specs, vars_, cstr=None):
        need = [k for s in specs for k, _ in s['reac']] + [s['pkey'] for s in specs if s.get('pform') == 'key']
        if cstr:
            for sk, fck in cstr['fc']:
                need += [cstr['fr'], fck, sk]
        return [k for k in need if k not in vars_]

    def _oracle_rxn(self, c):
        num = c['num']
        spec = c['rxn']
        vars_ = self._vars(c)
        rxn = kg.mk_reaction(spec, num)
        if c.get('ratex_value') is not None:
            x = kg.to_num(c['ratex_value'], num)
            got = {k: kg.to_frac(v) for k, v in rxn.rate(vars_, substance_keys=c['keys'], ratex=x).items()}
            want = {k: kg.net_of(spec, k) * kg.frac(c['ratex_value']) for k in c['keys']}
            return None if got == want else 'Reaction.rate(ratex=%s): %s, expected ratex * net = %s' % (x, got, want)
        missing = self._needed_missing([spec], vars_ or {})
        try:
            got = rxn.rate(vars_, kg.get_backend(c.get('backend')), substance_keys=c['keys'])
        except KeyError:
            return None if missing else 'Reaction.rate raised KeyError although every reactant has a concentration'
        if missing:
            return 'Reaction.rate used no value for %s but did not fail' % missing[0]
        conc = {k: kg.to_frac(v) for k, v in (vars_ or {}).items()}
        rate = kg.rate_of(spec, conc)
        # default substance_keys: every species of the four dictionaries, purely inactive ones included
        want = {k: kg.net_of(spec, k) * rate for k in (c['keys'] if c['keys'] is not None else kg.spec_keys(spec))}
        gotf = {k: kg.to_frac(v) for k, v in got.items()}
        if gotf != want:
            k = next(k for k in set(want) | set(gotf) if want.get(k) != gotf.get(k))
            return 'Reaction.rate: d[%s]/dt contribution is %s, net*k*prod(c^nu) = %s' % (k, gotf.get(k), want.get(k))
        return None

    def _oracle_sys(self, c):
        from chempy import ReactionSystem
        num = c['num']
        vars_ = self._vars(c)
        specs = c['rxns']
        rxns = [kg.mk_reaction(s, num) for s in specs]
        cstr = None
        if c['cstr'] is not None:
            cstr = (c['cstr']['fr'], OrderedDict(map(tuple, c['cstr']['fc'])))
        if c.get('ratexs_len') is not None:
            # an explicit ratexs list: the reactions beyond its length are dropped by zip(); the claim is made for the reactions kept
            specs = specs[:c['ratexs_len']]
            rsys = ReactionSystem(rxns, self._subst(c, c['subst']), checks=())
            missing = self._needed_missing(specs, vars_, c['cstr'])
            try:
                got = rsys.rates(vars_, substance_keys=c['keys'], cstr_fr_fc=cstr, ratexs=[None] * c['ratexs_len'])
            except KeyError:
                return None if missing else 'rates(ratexs=...) raised KeyError although every needed variable is given'
            if missing:
                return 'rates(ratexs=...) used no value for %s but did not fail' % missing[0]
            conc = {k: kg.to_frac(v) for k, v in vars_.items()}
            want = {}
            for s_ in specs:
                rate = kg.rate_of(s_, conc)
                for k in (list(dict.fromkeys(c['keys'])) if c['keys'] is not None else kg.spec_keys(s_)):
                    want[k] = want.get(k, 0) + kg.net_of(s_, k) * rate
            if c['cstr'] is not None:
                for sk, fck in c['cstr']['fc']:
                    want[sk] = want.get(sk, 0) + conc[c['cstr']['fr']] * (conc[fck] - conc[sk])
            gotf = {k: kg.to_frac(v) for k, v in got.items()}
            return None if gotf == want else 'rates(ratexs=[None]*%d): %s, the first %d reactions give %s' % (
                c['ratexs_len'], gotf, c['ratexs_len'], want)
        missing = self._needed_missing(specs, vars_, c['cstr'])
        rsys = ReactionSystem(rxns, self._subst(c, c['subst']), checks=())
        try:
            got = rsys.rates(vars_, kg.get_backend(c.get('backend')), substance_keys=c['keys'], cstr_fr_fc=cstr)
        except KeyError:
            return None if missing else 'ReactionSystem.rates raised KeyError although every needed variable is given'
        if missing:
            return 'ReactionSystem.rates used no value for %s but did not fail' % missing[0]
        conc = {k: kg.to_frac(v) for k, v in vars_.items()}
        want = {}
        for s in specs:
            rate = kg.rate_of(s, conc)
            for k in (list(dict.fromkeys(c['keys'])) if c['keys'] is not None else kg.spec_keys(s)):
                want[k] = want.get(k, 0) + kg.net_of(s, k) * rate
        if c['cstr'] is not None:
            for sk, fck in c['cstr']['fc']:
                want[sk] = want.get(sk, 0) + conc[c['cstr']['fr']] * (conc[fck] - conc[sk])
        gotf = {k: kg.to_frac(v) for k, v in got.items()}
        if gotf != want:
            k = next(k for k in list(want) + list(gotf) if want.get(k) != gotf.get(k))
            return 'ReactionSystem.rates: d[%s]/dt = %s, sum of net*k*prod(c^nu)%s = %s' % (
                k, gotf.get(k), ' + F*(c_feed - c)' if cstr else '', want.get(k))
        # independence of the order of the reaction list
        prs = ReactionSystem([rxns[i] for i in c['perm']], self._subst(c, c['subst']), checks=())
        got2 = {k: kg.to_frac(v) for k, v in prs.rates(vars_, substance_keys=c['keys'], cstr_fr_fc=cstr).items()}
        if got2 != gotf:
            return 'ReactionSystem.rates changes when the reaction list is permuted by %s' % c['perm']
        if num != 'float':
            f = self._batched(c, rsys, vars_, cstr, gotf)
            if f:
                return f
        if num == 'int' and cstr is None and specs and all(x.get('pform', 'plain') == 'plain' for x in specs):
            return self._int_dtype_and_units(c, specs, conc)
        return None

    def _int_dtype_and_units(self, c, specs, conc):
        """integer-dtype numpy arrays, and unit-carrying (quantities) concentrations / rate constants with integer magnitudes:
        the value is the same as for any other number type"""
        import numpy as np
        from chempy import ReactionSystem
        from chempy.units import default_units as u, to_unitless
        subst = c['subst']
        if any(k not in conc for k in subst) or any(abs(v) > 9 for v in conc.values()) or any(abs(kg.frac(x['param'])) > 99 for x in specs):
            return None
        pts = [{k: int(conc[k]) + j for k in subst} for j in range(3)]
        want = [{k: sum(kg.net_of(x, k) * kg.rate_of(x, {a: Fraction(b) for a, b in p.items()}) for x in specs) for k in subst} for p in pts]
        rsys = ReactionSystem([kg.mk_reaction(x, 'int') for x in specs], self._subst(c, subst), checks=())
        batch = {k: np.array([p[k] for p in pts], dtype=np.int64) for k in subst}
        try:
            rb = rsys.rates(batch, substance_keys=subst)
        except Exception as e:
            return 'rates() with integer-dtype numpy concentrations raised %s: %s' % (exc_name(e), str(e)[:80])
        for k in subst:
            got = [int(x) for x in np.broadcast_to(rb[k], (3,))]
            if got != [int(w[k]) for w in want]:
                return 'rates() with integer-dtype numpy concentrations: d[%s]/dt = %s, expected %s' % (k, got, [int(w[k]) for w in want])
        # quantities: concentrations in molar, k in molar**(1-order)/second, integer magnitudes
        qspecs = []
        for x in specs:
            order = sum(n for _, n in x['reac'])
            qspecs.append((x, int(kg.frac(x['param'])) * u.molar ** (1 - order) / u.second))
        qr = [kg.mk_reaction(x, 'int') for x, _ in qspecs]
        for r, (_, q) in zip(qr, qspecs):
            r.param = q
        qsys = ReactionSystem(qr, self._subst(c, subst), checks=())
        qbatch = {k: np.array([p[k] for p in pts], dtype=np.int64) * u.molar for k in subst}
        try:
            rq = qsys.rates(qbatch, substance_keys=subst)
        except Exception as e:
            return 'rates() with unit-carrying integer concentrations and rate constants raised %s: %s' % (exc_name(e), str(e)[:80])
        for k in subst:
            v = rq[k]
            mag = to_unitless(v, u.molar / u.second) if hasattr(v, 'dimensionality') and v.dimensionality else np.asarray(v, dtype=float)
            got = [float(x) for x in np.broadcast_to(mag, (3,))]
            if any(not close(g, w[k], 1e-12, 1e-12) for g, w in zip(got, want)):
                return 'rates() with unit-carrying concentrations: d[%s]/dt = %s M/s, expected %s' % (k, got, [float(w[k]) for w in want])
        return None

    def _batched(self, c, rsys, vars_, cstr, scalar):
        """the same evaluation with every variable given as a (mutable) numpy array holding a batch of states: each batch element
        must equal the scalar evaluation, the inputs must not be modified, distinct entries of the result must not share storage"""
        import numpy as np
        f = [1, 2, 3]
        batch = {k: np.array([kg.to_frac(v) * j for j in f], dtype=object) for k, v in vars_.items()}
        snap = {k: list(v) for k, v in batch.items()}
        try:
            rb = rsys.rates(batch, substance_keys=c['keys'], cstr_fr_fc=cstr)
        except Exception as e:
            return 'rates() with array-valued variables raised %s' % exc_name(e)
        if any(list(batch[k]) != snap[k] for k in batch):
            return 'rates() modified the arrays it was given'
        first = {k: (kg.to_frac(v[0]) if hasattr(v, '__len__') else kg.to_frac(v)) for k, v in rb.items()}
        if first != scalar:
            k = next(k for k in scalar if first.get(k) != scalar[k])
            return 'rates() on a batch of states (numpy arrays): d[%s]/dt of the first state is %s, evaluated alone it is %s' % (
                k, first.get(k), scalar[k])
        arrs = [v for v in rb.values() if isinstance(v, np.ndarray)]
        if any(np.shares_memory(a, b) for i, a in enumerate(arrs) for b in arrs[i + 1:]):
            return 'rates(): two entries of the returned dict share one array (aliasing)'
        return None

    def _oracle_array(self, c):
        from chempy import ReactionSystem
        from chempy.kinetics.ode import law_of_mass_action_rates, dCdt_list
        num = c['num']
        specs = c['rxns']
        keys = c['keys']
        if len(c['conc']) != len(keys) or any(k not in keys for s in specs for part in ('reac', 'prod', 'inact_reac', 'inact_prod')
                                              for k, _ in s[part]):
            return self._oracle_array_refusal(c)
        rsys = ReactionSystem([kg.mk_reaction(s, num) for s in specs], list(keys), checks=())
        conc = [kg.to_num(v, num) for v in c['conc']]
        try:
            f = dCdt_list(rsys, list(law_of_mass_action_rates(conc, rsys)))
        except Exception as e:
            return 'dCdt_list(law_of_mass_action_rates) raised %s on a well-formed system' % exc_name(e)
        cd = dict(zip(keys, map(kg.frac, c['conc'])))
        want = [sum(kg.net_of(s, k) * kg.rate_of(s, cd) for s in specs) for k in keys]
        gotf = [kg.to_frac(x) for x in f]
        if gotf != want:
            i = next(i for i in range(len(keys)) if gotf[i] != want[i])
            return 'dCdt_list: d[%s]/dt = %s, N^T r = %s' % (keys[i], gotf[i], want[i])
        d = rsys.rates(dict(zip(keys, conc)), substance_keys=keys)
        if specs and [kg.to_frac(d[k]) for k in keys] != gotf:
            return 'dict path and array path differ'
        return None

    def _oracle_array_refusal(self, c):
        """malformed array input: the first offending active reactant (reaction order, dict order) decides — a key that is no
        substance is a ValueError, a substance beyond a short `conc` an IndexError; otherwise the rates are k*prod(c^nu)"""
        from chempy import ReactionSystem
        from chempy.kinetics.ode import law_of_mass_action_rates
        num, keys = c['num'], c['keys']
        want = None
        for x in c['rxns']:
            for k, _ in kg.readback(kg.mk_reaction(x, num), x)['reac']:
                if k not in keys:
                    want = 'ValueError'
                elif keys.index(k) >= len(c['conc']):
                    want = 'IndexError'
                if want:
                    break
            if want:
                break
        rsys = ReactionSystem([kg.mk_reaction(x, num) for x in c['rxns']], list(keys), checks=())
        try:
            got = [kg.to_frac(v) for v in law_of_mass_action_rates([kg.to_num(v, num) for v in c['conc']], rsys)]
            res = 'ok'
        except Exception as e:
            res = exc_name(e)
        if res != (want or 'ok'):
            return 'law_of_mass_action_rates on a malformed system: %s, expected %s' % (res, want or 'ok')
        if res == 'ok':
            cd = dict(zip(keys, map(kg.frac, c['conc'])))
            if got != [kg.rate_of(x, cd) for x in c['rxns']]:
                return 'law_of_mass_action_rates: %s differs from k*prod(c^nu)' % got
        return None

    def _oracle_symbolic(self, c):
        import sympy
        from chempy import ReactionSystem
        specs = c['rxns']
        subst = c['subst']
        rsys = ReactionSystem([kg.mk_reaction(s, 'int') for s in specs], list(subst), checks=())
        sym = {k: sympy.Symbol('c_' + str(i)) for i, k in enumerate(subst)}
        got = rsys.rates(sym, substance_keys=subst)
        for k in subst:
            want = sum(kg.net_of(s, k) * sympy.Integer(int(kg.frac(s['param']))) *
                       sympy.Mul(*[sym[j] ** v for j, v in s['reac']]) for s in specs)
            if sympy.expand(got.get(k, 0) - want) != 0:
                return 'symbolic d[%s]/dt = %s, expected %s' % (k, got.get(k), want)
        return None

    def classify(self, c):
        op = c.get('op') or c.get('kind')
        if op == 'history':
            return 'history:' + '+'.join(sorted({x['do'] for x in c['steps'] if x['do'] != 'obs'}))
        if op == 'sys_rates':
            miss = bool(self._needed_missing(c['rxns'], dict(map(tuple, c['vars'])), c['cstr']))
            return 'sys_rates:%s%s:%s%s:nr%s%s' % (c['num'], ':be=' + c['backend'] if c.get('backend') else '', 'keys=None' if c['keys'] is None else 'keys', ':cstr' if c['cstr'] else '',
                                                 min(len(c['rxns']), 4), ':missing-var' if miss else '')
        if op == 'from_string':
            t = c['terms']
            rep = any(len([1 for n, k in t[p] if k == kk]) > 1 for p in t if p != 'param' for _, kk in t[p])
            both = any(k in [x[1] for x in t['inact_reac']] for _, k in t['reac'])
            return 'from_string:%s%s' % ('repeated' if rep else 'single', ':active+inactive' if both else '')
        if op == 'odesys_cstr':
            return 'odesys_cstr:' + ('solid/gas' if any(c['phases']) else 'one-phase')
        if op == 'rxn_rate':
            s = c['rxn']
            both = any(k in [p[0] for p in s['prod']] for k, _ in s['reac'])
            return 'rxn_rate:%s%s%s' % (c['num'], ':catalyst' if both else '', ':inactive' if s['inact_reac'] or s['inact_prod'] else '')
        if op == 'array_path':
            return 'array_path:' + ('ok' if len(c['conc']) == len(c['subst']) and len(c['keys']) == len(c['subst']) else 'malformed')
        return str(op)

    def nontrivial(self, c):
        return bool(c.get('rxns') or c.get('rxn') or c.get('stoichs') or c.get('terms') or c.get('line'))


PROPERTY = C03()
