"""Shared by the C03 / C05 harnesses: JSON <-> chempy objects for reaction systems with exact numbers,
random reaction systems, random "molecules" (the balanced-reaction planting lives in c05.py).

A number is sent as int or [num, den]; `num` in a case selects the Python type the real code is driven with:
'int' | 'Fraction' | 'Rational' (sympy) | 'float' (dyadic values only, so that float arithmetic is exact)."""
from collections import OrderedDict
from fractions import Fraction
from .util import rat_json

NAMES = ['A', 'B', 'C', 'D', 'E', 'F', 'G', 'X1', 'X2', 'Y', 'Z', 'H2O', 'H+', 'OH-', 'e-', 'Fe+3', 'NH3', 'O2']


def frac(v):
    return Fraction(*v) if isinstance(v, list) else Fraction(v)


def to_num(v, num):
    """JSON number -> the Python number type named by `num`"""
    q = frac(v)
    if num in ('int', 'bigint'):
        assert q.denominator == 1
        return int(q)
    if num == 'Fraction':
        return q
    if num == 'Rational':
        import sympy
        return sympy.Rational(q.numerator, q.denominator)
    if num == 'float':
        f = float(q)
        assert Fraction(f) == q
        return f
    raise ValueError(num)


def to_frac(x):
    """exact value of a result of the real code"""
    if isinstance(x, (int, Fraction)):
        return Fraction(x)
    if isinstance(x, float):
        return Fraction(x)
    if hasattr(x, 'p') and hasattr(x, 'q'):          # sympy Rational / Integer
        return Fraction(int(x.p), int(x.q))
    try:
        import numpy as np
        if isinstance(x, (np.integer,)):
            return Fraction(int(x))
        if isinstance(x, (np.floating,)):
            return Fraction(float(x))
    except ImportError:
        pass
    import sympy
    y = sympy.nsimplify(x)
    if y.is_Rational:
        return Fraction(int(y.p), int(y.q))
    raise TypeError('not an exact number: %r' % (x,))


def get_backend(name):
    """the documented optional `backend=` argument of Reaction.rate / ReactionSystem.rates"""
    import math
    if name in (None, 'math'):
        return math
    if name == 'numpy':
        import numpy
        return numpy
    if name == 'sympy':
        import sympy
        return sympy
    if name == 'units':
        from chempy.units import Backend
        return Backend()
    raise ValueError(name)


class _Convertible(object):
    """a parameter object offering `as_RateExpr()` (third branch of Reaction.rate_expr)"""
    def __init__(self, k):
        self.k = k

    def as_RateExpr(self):
        from chempy.kinetics.rates import MassAction
        return MassAction([self.k])


def mk_param(spec, num):
    """`pform`: 'plain' (default) number | 'massaction' MassAction([k]) | 'convertible' object with as_RateExpr() |
    'key' the string spec['pkey'] (rate constant = variables[pkey]) | 'other' a RateExpr that is no MassAction"""
    form = spec.get('pform', 'plain')
    if form == 'key':
        return spec['pkey']
    k = to_num(spec['param'], num)
    if form == 'plain':
        return k
    if form == 'massaction':
        from chempy.kinetics.rates import MassAction
        return MassAction([k])
    if form == 'convertible':
        return _Convertible(k)
    if form == 'other':
        from chempy.kinetics.rates import RateExpr
        return RateExpr([k])
    raise ValueError(form)


def mk_reaction(spec, num):
    """spec: {'reac': [[k, n], ...], 'prod', 'inact_reac', 'inact_prod', 'param', 'ordered': bool}
    ordered=True passes OrderedDicts (insertion order kept), False passes plain dicts (chempy sorts them)."""
    from chempy import Reaction
    mk = OrderedDict if spec.get('ordered', True) else dict
    return Reaction(mk((k, v) for k, v in spec['reac']), mk((k, v) for k, v in spec['prod']),
                    mk_param(spec, num),
                    inact_reac=mk((k, v) for k, v in spec['inact_reac']),
                    inact_prod=mk((k, v) for k, v in spec['inact_prod']), checks=())


def readback(rxn, spec):
    """the reaction as chempy stores it (dict orders after `_init_stoich`), in model-case form"""
    return {'reac': [[k, int(v)] for k, v in rxn.reac.items()], 'prod': [[k, int(v)] for k, v in rxn.prod.items()],
            'inact_reac': [[k, int(v)] for k, v in rxn.inact_reac.items()],
            'inact_prod': [[k, int(v)] for k, v in rxn.inact_prod.items()],
            'param': spec['param'], 'ordered': True,
            **({'param_key': spec['pkey'], 'pform': 'key', 'pkey': spec['pkey']} if spec.get('pform') == 'key' else
               ({'pform': spec['pform']} if spec.get('pform') else {}))}


def net_of(spec, s):
    """net stoichiometry of substance s read directly from the case (independent of chempy)"""
    g = lambda part: sum(v for k, v in spec[part] if k == s)
    return g('prod') - g('reac') + g('inact_prod') - g('inact_reac')


def spec_keys(spec):
    out = []
    for part in ('reac', 'prod', 'inact_reac', 'inact_prod'):
        for k, _ in spec[part]:
            if k not in out:
                out.append(k)
    return out


def rate_of(spec, conc):
    """k * prod_{(j, nu) in reac} c_j ** nu with Fractions (conc: dict name -> Fraction)"""
    r = conc[spec['pkey']] if spec.get('pform') == 'key' else frac(spec['param'])
    for k, v in spec['reac']:
        r *= conc[k] ** v
    return r


# ------------------------------------------------------------------------------------------------
def rand_rat(rng, num, small=False):
    if num == 'bigint':      # Python ints beyond 2**63 after a few multiplications (exact in Python, wrap-around in fixed-width backends)
        return rng.choice([0, 1, 3, rng.randint(2, 10 ** 6), rng.randint(1, 9) * 10 ** 7, rng.randint(10 ** 7, 10 ** 9), -rng.randint(1, 10 ** 8)])
    if num == 'int':
        return rng.choice([0, 1, 1, 2, 3, 5, 7, -1, -2]) if not small else rng.choice([0, 1, 2, 3])
    if num == 'float':
        return rat_json(Fraction(rng.randint(-3, 15), 8))
    r = rng.random()
    if r < 0.08:
        return 0
    if r < 0.2:
        return rng.randint(1, 9)
    q = Fraction(rng.randint(-4 if rng.random() < 0.15 else 1, 30), rng.randint(1, 12))
    return rat_json(q)


def rand_part(rng, pool, kmax, cmax, zero_ok=True):
    n = rng.randint(0, min(kmax, len(pool)))
    ks = rng.sample(pool, n)
    return [[k, rng.choice([0] + list(range(1, cmax + 1)) * 4 if zero_ok else list(range(1, cmax + 1)))] for k in ks]


def rand_reaction(rng, subst, num, cmax=3, inactive_p=0.35, catalyst_p=0.3):
    reac = rand_part(rng, subst, 3, cmax)
    prod = rand_part(rng, subst, 3, cmax)
    if reac and rng.random() < catalyst_p:           # a species on both sides
        k = rng.choice(reac)[0]
        if k not in [p[0] for p in prod]:
            prod.insert(rng.randint(0, len(prod)), [k, rng.randint(1, cmax)])
    ir = rand_part(rng, subst, 2, cmax) if rng.random() < inactive_p else []
    ip = rand_part(rng, subst, 2, cmax) if rng.random() < inactive_p else []
    return {'reac': reac, 'prod': prod, 'inact_reac': ir, 'inact_prod': ip, 'param': rand_rat(rng, num),
            'ordered': rng.random() < 0.6}


def rand_system(rng, tier, num=None, smax=None, rmax=None):
    num = num or rng.choice(['Fraction', 'Fraction', 'int', 'Rational', 'float', 'bigint'])
    smax = smax or (8 if tier == 'quick' else 12)
    rmax = rmax or (6 if tier == 'quick' else 12)
    ns = rng.randint(1, smax)
    subst = rng.sample(NAMES, ns)
    nr = rng.choice([0, 1, 1, 2, 2, 3, 3, 4, rng.randint(0, rmax)])
    cmax = 2 if num == 'float' else 3
    if rng.random() < 0.25 and ns > 1:                # leave some substances out of every reaction
        pool = subst[:rng.randint(1, ns - 1)]
    else:
        pool = subst
    rxns = [rand_reaction(rng, pool, num, cmax) for _ in range(nr)]
    if nr >= 2 and rng.random() < 0.2:                # the same reaction twice (checks=() allows it)
        rxns[-1] = dict(rxns[0])
    vars_ = [[k, rand_rat(rng, num)] for k in subst]
    return {'subst': subst, 'rxns': rxns, 'vars': vars_, 'num': num}


# ---- balanced reactions over random molecules (C05) ---------------------------------------------
ELEMENTS = [1, 6, 7, 8, 11, 17, 26]


def rand_molecule(rng, elements, charge_p=0.3):
    comp = {}
    for e in rng.sample(elements, rng.randint(1, min(3, len(elements)))):
        comp[e] = rng.randint(1, 4)
    if rng.random() < charge_p:
        comp[0] = rng.choice([-2, -1, 1, 2, 3])
    return comp


# ---- reactions written as TEXT with repeated terms (Reaction.from_string / ReactionSystem.from_string) ------------------
def split_terms(rng, pairs, p_split=0.6):
    """[[key, n], ...] (a dict) -> written terms [[n_i, key], ...]: coefficients are split into several terms naming the same
    species (bare + bare, bare + coefficient, coefficient + bare, coefficient + coefficient), occasionally a `0 X` term is added"""
    terms = []
    for k, n in pairs:
        parts = []
        left = n
        while left > 0:
            if left > 1 and rng.random() < p_split:
                a = rng.randint(1, left - 1)
            else:
                a = left
            parts.append(a)
            left -= a
        if n == 0 or rng.random() < 0.05:
            parts.append(0)
        for a in parts:
            terms.append([a, k])
    rng.shuffle(terms)
    return terms


def render_side(rng, active, inactive):
    """one side of a reaction string; inactive terms are parenthesised"""
    def term(n, k):
        if n == 1 and rng.random() < 0.8:
            return k
        return ('%d * %s' if rng.random() < 0.2 else '%d %s') % (n, k)
    items = [term(n, k) for n, k in active] + ['(%s)' % term(n, k) for n, k in inactive]
    rng.shuffle(items)
    return ' + '.join(items)


def written_reaction(rng, spec):
    """spec (dicts) -> (terms dict, reaction line 'lhs -> rhs; k'); param must be an integer"""
    t = {p: split_terms(rng, spec[p]) for p in ('reac', 'prod', 'inact_reac', 'inact_prod')}
    if rng.random() < 0.3 and spec['reac']:                    # the same species active AND inactive on one side
        k = rng.choice(spec['reac'])[0]
        t['inact_reac'].append([rng.randint(1, 2), k])
    line = '%s -> %s; %d' % (render_side(rng, t['reac'], t['inact_reac']), render_side(rng, t['prod'], t['inact_prod']),
                             int(frac(spec['param'])))
    return dict(t, param=spec['param']), line


def terms_count(terms, part, s):
    return sum(n for n, k in terms[part] if k == s)


def terms_net(terms, s):
    return terms_count(terms, 'prod', s) - terms_count(terms, 'reac', s) + terms_count(terms, 'inact_prod', s) - terms_count(terms, 'inact_reac', s)
