"""C07 — equilibrium residuals vanish exactly at, and only at, true equilibrium states

Correspondence: Model/EqSys.lean (driver Driver/C07.lean) vs NumSysLin/Square/LinRel/Log(...).f,
EqSystem.stoichs / eq_constants / equilibrium_quotients / composition_balance_vectors /
composition_conservation / upper_conc_bounds / Reaction.precipitate_stoich on the same systems.
Lin/Square are driven with fractions.Fraction (exact, identical text required); LinRel (chempy
accumulates element totals in a float) and Log (exp/log) to a tolerance scaled per residual row.

Oracle (independent of the Lean model): entry i of the real residual is zero iff quotient i of
the state equals K_i; entry nr+k is zero iff the k-th composition total of the state equals that of
the initial concentrations; len(f) == nr + number of composition keys.  Quotients / totals are
computed here from the reaction dicts and compositions with Fractions.  For rref_equil /
rref_preserv = True: zero at planted equilibria, non-zero at planted violations, and the
equation count rank-based (per instance only).
"""
from fractions import Fraction
import json, math, struct
from lib.framework import Property, load_known, log
from .util import *

F = Fraction

# ----------------------------------------------------------------------------- chemistry pools
POOLS = [
    (['H2O', 'H+', 'OH-'], [({'H2O': 1}, {'H+': 1, 'OH-': 1})]),
    (['NH4+', 'NH3', 'H+'], [({'NH4+': 1}, {'NH3': 1, 'H+': 1})]),
    (['Fe+3', 'SCN-', 'FeSCN+2'], [({'Fe+3': 1, 'SCN-': 1}, {'FeSCN+2': 1})]),
    (['H2CO3', 'HCO3-', 'CO3-2', 'H+'], [({'H2CO3': 1}, {'H+': 1, 'HCO3-': 1}), ({'HCO3-': 1}, {'H+': 1, 'CO3-2': 1})]),
    (['H3PO4', 'H2PO4-', 'HPO4-2', 'PO4-3', 'H+'],
     [({'H3PO4': 1}, {'H+': 1, 'H2PO4-': 1}), ({'H2PO4-': 1}, {'H+': 1, 'HPO4-2': 1}), ({'HPO4-2': 1}, {'H+': 1, 'PO4-3': 1})]),
    (['Cu+2', 'NH3', 'CuNH3+2', 'Cu(NH3)2+2'],
     [({'Cu+2': 1, 'NH3': 1}, {'CuNH3+2': 1}), ({'CuNH3+2': 1, 'NH3': 1}, {'Cu(NH3)2+2': 1})]),
    (['Ag+', 'NH3', 'Ag(NH3)2+'], [({'Ag+': 1, 'NH3': 2}, {'Ag(NH3)2+': 1})]),
    (['NO2', 'N2O4'], [({'NO2': 2}, {'N2O4': 1})]),
    (['N2', 'H2', 'NH3'], [({'N2': 1, 'H2': 3}, {'NH3': 2})]),
    (['CH3COOH', 'CH3COO-', 'H+'], [({'CH3COOH': 1}, {'CH3COO-': 1, 'H+': 1})]),
    # catalyst written on both sides (formulas as chempy's own docs write formic acid)
    (['H+', 'CH2O2', 'CHO2-', 'CO', 'H2O'], [({'H+': 1, 'CH2O2': 1}, {'H+': 1, 'CO': 1, 'H2O': 1}), ({'CH2O2': 1}, {'H+': 1, 'CHO2-': 1})]),
]
SPECTATORS = ['Na+', 'Cl-', 'K+', 'NO3-', 'Ar', 'e-']     # 'e-' is charge-only: upper_conc_bounds gives inf
PRECIP_POOLS = [
    (['NaCl(s)', 'Na+', 'Cl-'], [({'NaCl(s)': 1}, {'Na+': 1, 'Cl-': 1})]),
    (['AgCl(s)', 'Ag+', 'Cl-'], [({'AgCl(s)': 1}, {'Ag+': 1, 'Cl-': 1})]),
    (['Ca+2', 'CO3-2', 'CaCO3(s)'], [({'Ca+2': 1, 'CO3-2': 1}, {'CaCO3(s)': 1})]),            # solid as product
    (['AgCl(s)', 'Br-', 'AgBr(s)', 'Cl-'], [({'AgCl(s)': 1, 'Br-': 1}, {'AgBr(s)': 1, 'Cl-': 1})]),  # two solids
    (['Fe(OH)3(s)', 'Fe+3', 'OH-'], [({'Fe(OH)3(s)': 1}, {'Fe+3': 1, 'OH-': 3})]),
]
ELEMENT_KEYS = [1, 6, 7, 8, 11, 17, 26, 29]


def fbits(x):
    return struct.unpack('<Q', struct.pack('<d', float(x)))[0]


def bits2f(n):
    return struct.unpack('<d', struct.pack('<Q', int(n)))[0]


def rj(q):
    return rat_json(F(q))


def unrj(v):
    return F(v[0], v[1]) if isinstance(v, list) else F(v)


def _combine(r1, r2):
    """sum of two reactions given as (reac, prod) dicts, common species cancelled"""
    net = {}
    for (re, pr) in (r1, r2):
        for k, v in re.items():
            net[k] = net.get(k, 0) - v
        for k, v in pr.items():
            net[k] = net.get(k, 0) + v
    return ({k: -v for k, v in net.items() if v < 0}, {k: v for k, v in net.items() if v > 0})


def _add(pairs, k, n):
    """accumulate coefficient n for key k in a [[key, coeff], ...] list (keys stay unique, as in a dict)"""
    if n == 0:
        return
    for kv in pairs:
        if kv[0] == k:
            kv[1] += n
            return
    pairs.append([k, n])


def decorate(rng, rxn, names):
    """Rewrite a reaction (lists of [key, coeff]) WITHOUT changing its net stoichiometry:
    * a species added with the same total amount on both sides (catalyst / spectator written explicitly);
      if it already takes part, it now has unequal coefficients on the two sides;
    * each side's amount split at random between the active and the inactive dict (inactive parts on either
      side; the same species active AND inactive on one side);
    * part of an existing coefficient >= 2 moved from the active to the inactive dict of its side.
    The written net stoichiometry (prod + inact_prod - reac - inact_reac, accumulated) is what K is planted from."""
    kinds = []
    r = rng.random()
    if r < 0.75:
        k = rng.choice(names)
        n = rng.randint(1, 2)
        a = rng.choice([n, n, 0, rng.randint(0, n)])       # active part on the left
        b = rng.choice([n, n, 0, rng.randint(0, n)])       # active part on the right
        _add(rxn['reac'], k, a)
        _add(rxn['inact_reac'], k, n - a)
        _add(rxn['prod'], k, b)
        _add(rxn['inact_prod'], k, n - b)
        kinds.append('both-sides')
    if r >= 0.6:
        side = rng.choice([('reac', 'inact_reac'), ('prod', 'inact_prod')])
        cands = [kv for kv in rxn[side[0]] if kv[1] >= 2]
        if cands:
            kv = rng.choice(cands)
            m = rng.randint(1, kv[1] - 1)
            kv[1] -= m
            _add(rxn[side[1]], kv[0], m)
            kinds.append('split')
    return kinds


# ----------------------------------------------------------------------------- system generators
def gen_formula_system(rng, precip=False):
    pools = rng.sample(POOLS, rng.randint(1, 3))
    if precip:
        pools = pools[:rng.randint(0, 2)] + rng.sample(PRECIP_POOLS, rng.randint(1, 2))
    names, rxns = [], []
    for sp, rx in pools:
        for s in sp:
            if s not in names:
                names.append(s)
        for r in rx:
            if r not in rxns:
                rxns.append(r)
    for s in rng.sample(SPECTATORS, rng.randint(0, 2)):
        if s not in names:
            names.append(s)
    if len(rxns) >= 2 and rng.random() < 0.15 and not precip:
        a, b = rng.sample(rxns, 2)
        c = _combine(a, b)
        if c[0] and c[1] and c not in rxns:
            rxns.append(c)
    rng.shuffle(names)
    rng.shuffle(rxns)
    out = []
    for re, pr in rxns:
        m = rng.choice([1, 1, 1, 2])
        re = {k: v * m for k, v in re.items()}
        pr = {k: v * m for k, v in pr.items()}
        if rng.random() < 0.3:
            re, pr = pr, re
        out.append({'reac': sorted(re.items(), key=lambda kv: rng.random()), 'prod': sorted(pr.items(), key=lambda kv: rng.random()),
                    'inact_reac': [], 'inact_prod': []})
    rx = [_listify(r) for r in out]
    if not precip:
        for r in rx:
            if rng.random() < 0.25:
                decorate(rng, r, names)
    return {'species': [{'name': n, 'formula': True} for n in names], 'rxns': rx}


def _listify(r):
    return {k: [[a, b] for a, b in v] for k, v in r.items()}


def gen_abstract_system(rng, big=False):
    nprim = rng.randint(1, 4 if not big else 5)
    prims = []
    for i in range(nprim):
        comp = {}
        for k in rng.sample(ELEMENT_KEYS, rng.randint(1, 2)):
            comp[k] = rng.randint(1, 3)
        ch = rng.choice([0, 0, 1, -1, 2, -2, 3])
        if ch:
            comp[0] = ch
        prims.append(('P%d' % i, comp))
    species = list(prims)
    rxns = []
    ncomplex = rng.randint(1, 4 if not big else 7)
    for c in range(ncomplex):
        parts = {}
        for _ in range(rng.randint(1, 3)):
            nm, _comp = rng.choice(species)
            parts[nm] = parts.get(nm, 0) + rng.randint(1, 3)
        if len(parts) == 1 and list(parts.values())[0] == 1:
            k = list(parts)[0]
            parts[k] = 2
        comp = {}
        lookup = dict(species)
        for nm, n in parts.items():
            for k, v in lookup[nm].items():
                comp[k] = comp.get(k, 0) + n * v
        if comp.get(0) == 0 and rng.random() < 0.7:
            del comp[0]
        name = 'X%d' % c
        items = list(comp.items())
        rng.shuffle(items)
        species.append((name, dict(items)))
        re, pr = dict(parts), {name: 1}
        m = rng.choice([1, 1, 2])
        re = {k: v * m for k, v in re.items()}
        pr = {k: v * m for k, v in pr.items()}
        inact_r, inact_p = {}, {}
        if len(re) > 1 and rng.random() < 0.2:
            k = rng.choice(sorted(re))
            inact_r[k] = re.pop(k)
        if rng.random() < 0.3:
            re, pr, inact_r, inact_p = pr, re, inact_p, inact_r
        rxns.append({'reac': list(re.items()), 'prod': list(pr.items()), 'inact_reac': list(inact_r.items()),
                     'inact_prod': list(inact_p.items())})
    if rng.random() < 0.3:
        species.append(('S0', {rng.choice(ELEMENT_KEYS): 1}))
    rng.shuffle(species)
    rng.shuffle(rxns)
    rx = [_listify(r) for r in rxns]
    for r in rx:
        if rng.random() < 0.25:
            decorate(rng, r, [n for n, _ in species])
    return {'species': [{'name': n, 'comp': [[k, v] for k, v in c.items()], 'phase': 0} for n, c in species],
            'rxns': rx}


# ----------------------------------------------------------------------------- real objects
_cache = {}


def build(sysspec, Ks=None):
    """the real EqSystem for a system spec (cached); with `Ks` the reactions carry these constants (not cached)"""
    key = json.dumps(sysspec, sort_keys=True)
    if Ks is None and key in _cache:
        return _cache[key]
    from chempy import Equilibrium, Species
    from chempy.equilibria import EqSystem
    subs = []
    for s in sysspec['species']:
        if s.get('formula'):
            subs.append(Species.from_formula(s['name']))
        else:
            subs.append(Species(s['name'], composition={int(k): int(v) for k, v in s['comp']}, phase_idx=int(s.get('phase', 0))))
    eqs = []
    for r in sysspec['rxns']:
        eqs.append(Equilibrium({k: v for k, v in r['reac']}, {k: v for k, v in r['prod']}, 1 if Ks is None else Ks[len(eqs)],
                               inact_reac={k: v for k, v in r['inact_reac']}, inact_prod={k: v for k, v in r['inact_prod']}))
    es = EqSystem(eqs, subs)
    if Ks is not None:
        return es
    if len(_cache) > 400:
        _cache.clear()
    _cache[key] = es
    return es


def encode(es):
    """driver encoding, read off the REAL objects"""
    subs = [[k, [[int(a), int(b)] for a, b in s.composition.items()], int(s.phase_idx)] for k, s in es.substances.items()]
    rx = [[[[k, int(v)] for k, v in d.items()] for d in (r.reac, r.prod, r.inact_reac, r.inact_prod)] for r in es.rxns]
    return {'substances': subs, 'rxns': rx}


def net_matrix(sysspec):
    """net stoichiometry from the spec's own dicts (independent of chempy)"""
    names = [s['name'] for s in sysspec['species']]
    N = []
    for r in sysspec['rxns']:
        row = {n: 0 for n in names}
        for k, v in r['prod'] + r['inact_prod']:
            row[k] += v
        for k, v in r['reac'] + r['inact_reac']:
            row[k] -= v
        N.append([row[n] for n in names])
    return N


def quotient(c, row):
    q = F(1)
    for x, n in zip(c, row):
        if n:
            q *= F(x) ** n
    return q


def comp_matrix(es):
    keys = sorted({k for s in es.substances.values() for k in s.composition})
    return keys, [[s.composition.get(k, 0) for s in es.substances.values()] for k in keys]


def dot(row, v):
    return sum((F(a) * F(b) for a, b in zip(row, v)), F(0))


def upper_bounds(es, c0):
    out = []
    subs = list(es.substances.values())
    for s in subs:
        cand = []
        for k, coeff in s.composition.items():
            if k == 0:
                continue
            tot = sum((F(t.composition[k]) * F(c) for t, c in zip(subs, c0) if k in t.composition), F(0))
            cand.append(tot / coeff)
        out.append(min(cand) if cand else None)
    return out


def log_vector(expr):
    """exact coordinates of a Q-linear combination of logs of positive rationals in the basis {log p : p prime}
    (these are Q-linearly independent, so two such numbers are equal iff their vectors are); None if not of that form"""
    import sympy as sp
    e = sp.expand_log(expr, force=True)
    vec = {}
    for term in sp.Add.make_args(e):
        if term == 0:
            continue
        coeff, rest = term.as_coeff_Mul()
        if not (isinstance(rest, sp.log) and rest.args[0].is_Rational and rest.args[0] > 0 and coeff.is_Rational):
            return None
        a = rest.args[0]
        for num, sign in ((int(a.p), 1), (int(a.q), -1)):
            for pr, ex in sp.factorint(num).items():
                vec[pr] = vec.get(pr, 0) + sp.Rational(coeff) * sign * ex
    return {k: v for k, v in vec.items() if v != 0}


def same_row_space(M1, M2):
    """exact: the rows of M1 and of M2 (rational matrices, same width) span the same space  <=>
    there are P, L with M2 = P M1 and M1 = L M2 (the hypothesis `RowEquiv` of the rref theorems)"""
    import sympy as sp
    if not M1 and not M2:
        return True
    r1 = sp.Matrix(M1).rank() if M1 else 0
    r2 = sp.Matrix(M2).rank() if M2 else 0
    if r1 != r2:
        return False
    if not M1 or not M2:
        return r1 == 0
    return sp.Matrix(M1 + M2).rank() == r1


def augmented_with_logs(A, log_exprs):
    """[A | coordinates of the log column]; None when a log expression is not a rational combination of prime logs"""
    import sympy as sp
    vecs = [log_vector(e) for e in log_exprs]
    if any(v is None for v in vecs):
        return None
    primes = sorted({p for v in vecs for p in v})
    return [[sp.Rational(x) for x in row] + [v.get(p, 0) for p in primes] for row, v in zip(A, vecs)], primes


def captured_solver_params(es, init):
    """the parameter vector EqSystem.root really hands to the solver (captured with a stand-in solver object)"""
    import numpy as np
    box = {}

    class Capture:
        def solve(self, x0, params, **kw):
            box['params'] = [float(v) for v in params]
            return np.asarray(x0, dtype=float), {'success': True}
    import warnings
    with warnings.catch_warnings():
        warnings.simplefilter('ignore')
        es.root([float(v) for v in init], neqsys=Capture())
    return box['params']


def has_repeated_species(sysspec):
    """some reaction writes a species in more than one of its four dicts (both sides, or active and inactive)"""
    for r in sysspec['rxns']:
        seen = [k for part in ('reac', 'prod', 'inact_reac', 'inact_prod') for k, _ in r[part]]
        if len(seen) != len(set(seen)):
            return True
    return False


def has_other_phase(es):
    return any(getattr(s, 'phase_idx', 0) > 0 for s in es.substances.values())


FORMS = {'lin': 'NumSysLin', 'square': 'NumSysSquare', 'linrel': 'NumSysLinRel', 'log': 'NumSysLog'}


def numsys(form):
    import chempy._eqsys as m
    return getattr(m, FORMS[form])


class C07(Property):
    pid = 'C07'
    title = ('every residual formulation (Lin, Square, LinRel, Log; rref options per instance) is zero at a state with all '
             'Q_i = K_i and the same element/charge totals as the initial concentrations, non-zero otherwise; '
             'number of equations = nr + number of composition keys (rank-based when row-reduced)')
    props_module = 'ChemModel.Props.C07'
    build_modules = ('ChemModel.Model.EqSys', 'ChemModel.Basic.Proto')
    driver = 'ChemModel/Driver/C07.lean'
    n_quick, n_thorough = 1200, 12000
    float_tol = 1e-9
    rule = ('EqSystems assembled from 10 aqueous/gas pools of formula-defined species (1-3 pools merged, spectators, scaled/reversed/'
            'dependent reactions) and abstract systems (random primitive compositions, nested complexes, inactive reactants); '
            'a quarter of the reactions rewritten with a species on both sides (equal / unequal coefficients), inactive parts on either '
            'side and active+inactive duplicates, net stoichiometry unchanged (K planted from the accumulated net stoichiometry); '
            'states: exactly planted equilibria (rational c, K = Q(c) exact, c0 = c - N^T xi), one violated quotient, one violated '
            'total, one perturbed concentration, fully random y/params incl. zeros and K = 0; precipitate systems for the stoichs switch. '
            'Non-trivial: distinct JSON value with at least one reaction. Oracle verdicts: every case of the exact formulations (Lin, Square), '
            'planted states only for the float formulations (kind random of LinRel/Log and all precipitate systems: correspondence only).')
    assumptions = ('integer stoichiometric coefficients and composition counts; species with a composition dict',
                   'shapes len(y) = ns, len(params) = ns + nr (new_eq_params=True) resp. ns (new_eq_params=False; longer: AssertionError, compared)',
                   'rref_equil / rref_preserv = True: the reducer (sympy) output is a parameter of the model; the hypothesis RowEquiv of the '
                   'rref theorems is checked exactly per instance; model vs real f compared in Float at 1e-9 of the row scale',
                   'LinRel: chempy accumulates element totals in a Python float, exact model compared at 1e-9 of the row scale; '
                   'Log: Lean Float vs numpy at 1e-9 of the row scale',
                   'NumSysLinTanh.f raises TypeError on the pinned tree (min_ arity) and is not modelled')
    clauses_without_theorem = (
        'the external row reduction itself (sympy Matrix.rref via pyneqsys.linear_rref) is not modelled. For the CONSERVATION block the '
        'hypothesis RowEquiv is now discharged per instance inside the model (decidable preservCert, theorem '
        'rref_preserv_zero_iff_certified; the harness only supplies the weights P, L). For the EQUILIBRIUM block (irrational ln K) the '
        'weights are kernel-checked too (equilCertSys on the rational log-coordinate matrices, theorem rref_equil_zero_iff_certified); the '
        'identity ln K_i = sum_k E_ik ln p_k and K_i > 0 are theorems from the decidable ksCert (rref_equil_zero_iff_certified_constants); what '
        'remains assumed there is only that the reducer\'s symbolic right-hand side is the number rb_j = sum_k E\'_jk ln p_k (checked exactly by '
        'the harness through prime factorisation of exp(rb), not in Lean), and for inconsistent dependent systems nothing is certified. The generic '
        'rref_zero_iff_* theorems still take RowEquiv as hypothesis; that hypothesis, the independence of the returned rows and hence '
        '"number of equilibrium equations = rank(A | ln K)", "number of conservation equations = rank(B | B c0)" are checked per '
        'generated instance only (exact rational arithmetic, logs in coordinates over {ln p}); for dependent reactions with '
        'INCONSISTENT constants (one K violated) the reducer row (0…0|1) is an irrational multiple and only the zero/non-zero '
        'behaviour is checked',
        'reading of the count clause: with rref_equil=True the equilibrium block has rank(A | ln K) equations, i.e. fewer than nr '
        'for linearly dependent reactions ("independent equations after reduction"); the property text says "number of reactions" — '
        'recorded as a deviation of the text, theorem dependent_reaction_adds_no_equation shows no information is lost',
        'model vs real f in the rref configurations: EXACT over Q for (rref_equil=False, rref_preserv=True) with Lin/Square; a '
        'Float/tolerance correspondence (1e-9 of the row scale) at planted states with concentrations in [0.1, 10] wherever the '
        'reduced equilibrium block (ln K, fractional exponents) or Log/LinRel is involved',
        'precipitate systems in the rref_equil=True configuration (NumSysLin: small = 0 for a switched-off solid, Python takes log(0) = -inf/zoo): '
        'excluded from the theorems by the positivity hypothesis, never generated, model totalised there (Real.log 0 = 0)',
        'NumSysLinTanh (named in the anchors) raises TypeError for every input — open known finding, no theorem',
        'histories on ONE EqSystem object (evaluate, `eqsys += [Equilibrium…]`, `rxn.param` set in place, evaluate again in every '
        'formulation/configuration): the model is a pure function of (system, y, params), i.e. it describes each evaluation of the '
        'CURRENT system; that the real object has no stale state between evaluations is oracle-only (op history)',
        'EqSystem.root forwarding NumSys / rref_equil / rref_preserv unchanged to get_neqsys and warning exactly when the solver reports '
        'failure: oracle only (stand-in solver); the solver itself and internal_x0_cb (starting points) belong to C08',
        'a species with composition=None: composition_keys skips it (compared), but NumSys*.f then raises AttributeError in '
        'composition_balance_vectors when other species have compositions, and has NO conservation equations when none has — outside the '
        'quantifier (formula-defined species), not modelled',
        '_NumSysLinNegPenalty, non-integer stoichiometric coefficients, composition=None: not modelled, not sampled',
        'Balanced (B nu^T = 0) is a hypothesis of extent_preserves_totals; that the constructor check_balance establishes it is checked '
        'by the structure oracle per instance (C05 owns the theorem)',
        'that EqSystem.root builds params = init_concs ++ [rxn.param] is tied by correspondence (captured with a stand-in solver) to '
        'the model function solverParams; lin_zero_iff_reaction_constants is a theorem about that model function',
    )
    # the methods that are mirrored; `internal_x0_cb` (the solver's starting point) of each class belongs to C08
    anchors = (('chempy/_eqsys.py', '_NumSys.__init__'), ('chempy/_eqsys.py', '_NumSys._get_A_ks'), ('chempy/_eqsys.py', '_NumSys._inits_and_eq_params'),
               ('chempy/_eqsys.py', 'NumSysLin.f'),
               ('chempy/_eqsys.py', 'NumSysLog.pre_processor'), ('chempy/_eqsys.py', 'NumSysLog.post_processor'), ('chempy/_eqsys.py', 'NumSysLog.f'),
               ('chempy/_eqsys.py', 'NumSysSquare.pre_processor'), ('chempy/_eqsys.py', 'NumSysSquare.post_processor'), ('chempy/_eqsys.py', 'NumSysSquare.f'),
               ('chempy/_eqsys.py', 'NumSysLinRel.max_concs'), ('chempy/_eqsys.py', 'NumSysLinRel.pre_processor'),
               ('chempy/_eqsys.py', 'NumSysLinRel.post_processor'), ('chempy/_eqsys.py', 'NumSysLinRel.f'),
               ('chempy/equilibria.py', 'EqSystem.eq_constants'), ('chempy/equilibria.py', 'EqSystem.stoichs_constants'),
               ('chempy/equilibria.py', 'EqSystem.equilibrium_quotients'), ('chempy/equilibria.py', 'EqSystem.composition_conservation'),
               ('chempy/equilibria.py', 'EqSystem.non_precip_rids'), ('chempy/equilibria.py', 'EqSystem.root'), ('chempy/equilibria.py', 'EqSystem.phase_transfer_reaction_idxs'),
               ('chempy/reactionsystem.py', 'ReactionSystem.stoichs'), ('chempy/reactionsystem.py', 'ReactionSystem.__iadd__'), ('chempy/reactionsystem.py', 'ReactionSystem.composition_balance_vectors'),
               ('chempy/reactionsystem.py', 'ReactionSystem.upper_conc_bounds'),
               ('chempy/chemistry.py', 'equilibrium_quotient'), ('chempy/chemistry.py', 'Reaction._xprecipitate_stoich'),
               ('chempy/chemistry.py', 'Reaction.precipitate_stoich'), ('chempy/chemistry.py', 'Reaction.has_precipitates'),
               ('chempy/chemistry.py', 'Substance.composition_keys'),
               ('chempy/_util.py', 'prodpow'), ('chempy/_util.py', 'mat_dot_vec'), ('chempy/_util.py', 'vec_dot_vec'))

    # ------------------------------------------------------------------------- generation
    def _conc(self, rng, narrow):
        if narrow:
            return F(rng.randint(10, 1000), 100)
        r = rng.random()
        if r < 0.3:
            return F(rng.randint(1, 60))
        return F(rng.randint(1, 9999), 10 ** rng.randint(0, 12))

    def _planted(self, rng, sysspec, form, kind, narrow=None, viol_index=None, near_ok=None):
        """(y, params, info) for a planted state"""
        N = net_matrix(sysspec)
        ns, nr = len(sysspec['species']), len(N)
        if narrow is None:
            narrow = form in ('linrel', 'log')
        if form == 'square':
            ys = [self._conc(rng, narrow) for _ in range(ns)]
            if rng.random() < 0.3:
                ys = [-v if rng.random() < 0.3 else v for v in ys]
            c = [v * v for v in ys]
        else:
            c = [self._conc(rng, narrow) for _ in range(ns)]
        K = [quotient(c, row) for row in N]
        mx = max([abs(v) for row in N for v in row] + [1])
        lim = min(c) / (2 * max(nr, 1) * mx)
        xi = [lim * F(rng.randint(-100, 100), 100) for _ in range(nr)]
        c0 = [c[j] - sum((xi[i] * N[i][j] for i in range(nr)), F(0)) for j in range(ns)]
        fac = rng.choice([F(2), F(1, 2), F(9, 8), F(3), F(7, 8)])
        # a violation CLOSE to equilibrium (relative 1e-4): a residual that vanishes on a thin set around the equilibrium must show.
        # For a violated K in every formulation; for totals / concentrations only where the oracle is exact (Lin, Square).
        if near_ok is None:
            near_ok = kind == 'viol_q' or form in ('lin', 'square')
        if rng.random() < 0.25 and near_ok:
            fac = rng.choice([F(10001, 10000), F(9999, 10000)])
        info = {'kind': kind}
        if kind == 'viol_q' and nr:
            i = rng.randrange(nr) if viol_index is None else viol_index
            K[i] = K[i] * fac
            info['i'] = i
        elif kind == 'viol_total':
            j = rng.randrange(ns)
            c0[j] = c0[j] * fac
            info['j'] = j
        elif kind == 'viol_conc':
            j = rng.randrange(ns)
            if form == 'square':
                ys[j] = ys[j] * fac
                c[j] = ys[j] * ys[j]
            else:
                c[j] = c[j] * fac
            info['j'] = j
        if form == 'square':
            y = ys
        else:
            y = c
        return y, c0 + K, info

    def _random_state(self, rng, sysspec):
        ns, nr = len(sysspec['species']), len(sysspec['rxns'])

        def val(zero_p, neg_p):
            r = rng.random()
            if r < zero_p:
                return F(0)
            v = self._conc(rng, False)
            return -v if rng.random() < neg_p else v
        y = [val(0.06, 0.1) for _ in range(ns)]
        p = [val(0.1, 0.05) for _ in range(ns)] + [val(0.1, 0.05) for _ in range(nr)]
        return y, p

    def _gen_prepost(self, rng, spec, es_kind):
        """the change of variables of Square / Log / LinRel at a planted state: pre_processor on the concentrations,
        post_processor on the transformed variable; the oracle evaluates the residual at pre_processor(state)"""
        out = []
        form = rng.choice(['square', 'log', 'linrel'])
        kind = rng.choice(['eq', 'eq', 'viol_q', 'viol_total', 'viol_conc'])
        c_, p, info = self._planted(rng, spec, 'lin', kind, narrow=True, near_ok=(kind == 'viol_q'))   # judged in floats
        if info['kind'] == 'viol_q' and 'i' not in info:
            info['kind'] = 'eq'
        cf = [float(v) for v in c_]
        if rng.random() < 0.3 and form != 'log':
            cf[rng.randrange(len(cf))] = 0.0            # pre_processor at a zero concentration (sqrt(0), 0/m)
        base = {'op': 'prepost', 'form': form, 'kind': info['kind'], 'sys': spec, 'sys_kind': es_kind,
                'c': [rj(v) for v in c_], 'params': [rj(v) for v in p]}
        out.append(dict(base, dir='pre', x=(cf if form != 'square' else [v if rng.random() < 0.8 else -v for v in cf])))
        # post_processor on arbitrary solver variables (any sign for Square / LinRel, any real for Log)
        out.append(dict(base, dir='post', x=[rng.uniform(-4.0, 4.0) for _ in cf]))
        return out

    def _gen_history(self, rng, spec, es_kind):
        """a history on one object: start with the first k reactions (and only part of the substances), evaluate, add the rest in
        place — `+= [Equilibrium…]` among known substances, `+= EqSystem(…)` bringing its own (possibly new) substances, a refused
        `+= [42]` — and evaluate after each change: every formulation / reduction configuration, planted for the system AS IT IS"""
        rxns = spec['rxns']
        species = spec['species']
        nr = len(rxns)

        def names_of(rs):
            return {k_ for r in rs for part in r.values() for k_, _ in part}
        k = rng.randint(1, nr - 1)
        cur = list(rxns[:k])
        need = names_of(cur)
        cur_species = [sp for sp in species if sp['name'] in need or rng.random() < 0.5]
        initial_species = list(cur_species)
        steps = []

        def ev(newest=None):
            form = rng.choice(['lin', 'square', 'log', 'linrel', 'lin'])
            re_, rp_ = rng.choice([(False, False), (False, False), (True, False), (False, True), (True, True)])
            kind = rng.choice(['eq', 'eq', 'viol_q', 'viol_q', 'viol_total'])
            vi = None
            if kind == 'viol_q' and newest is not None and rng.random() < 0.7:
                vi = rng.choice(newest)            # violate an equilibrium that was added in place
            now = {'species': list(cur_species), 'rxns': cur}
            y, p, info = self._planted(rng, now, form, kind, narrow=True if (re_ or rp_) else None, viol_index=vi)
            steps.append({'do': 'eval', 'form': form, 'kind': info['kind'], 'rref_equil': re_, 'rref_preserv': rp_,
                          'own': rng.random() < 0.4, 'species': list(cur_species), 'y': [rj(v) for v in y], 'params': [rj(v) for v in p]})
        ev()
        rest = list(rxns[k:])
        while rest:
            m = rng.randint(1, len(rest))
            chunk, rest = rest[:m], rest[m:]
            first = len(cur)
            if rng.random() < 0.25:
                steps.append({'do': 'add_bad'})              # `+= [42]`: ValueError, the object stays as it is
            need = names_of(chunk)
            known = {sp['name'] for sp in cur_species}
            if not need <= known or rng.random() < 0.35:
                other = [sp for sp in species if sp['name'] in need]
                rng.shuffle(other)
                steps.append({'do': 'add_system', 'rxns': chunk, 'species': other})   # += EqSystem: substances.update + rxns.extend
                cur_species = cur_species + [sp for sp in other if sp['name'] not in known]
            else:
                steps.append({'do': 'add', 'rxns': chunk})
            cur = cur + chunk
            ev(newest=list(range(first, len(cur))))
            if rng.random() < 0.5:
                ev(newest=list(range(first, len(cur))))
        return {'op': 'history', 'sys': spec, 'sys_kind': es_kind, 'initial_rxns': list(rxns[:k]), 'initial_species': initial_species,
                'steps': steps}

    def generate(self, rng, n, tier):
        cases = []
        big = tier == 'thorough'
        while len(cases) < n:
            r = rng.random()
            if r < 0.12:
                spec = gen_formula_system(rng, precip=True)
                es_kind = 'precip'
            elif r < 0.55:
                spec = gen_formula_system(rng)
                es_kind = 'formula'
            else:
                spec = gen_abstract_system(rng, big=big and rng.random() < 0.5)
                es_kind = 'abstract'
            ns, nr = len(spec['species']), len(spec['rxns'])
            if es_kind == 'precip':
                cases.append({'op': 'structure', 'sys': spec, 'sys_kind': es_kind})
                for _ in range(3):
                    npt = rng.randint(0, 3)
                    y, p = self._random_state(rng, spec)
                    form = rng.choice(['lin', 'lin', 'square', 'log'])
                    if form == 'log':
                        y = [F(rng.randint(-500, 300), 100) for _ in y]
                        p = [abs(v) + F(1, 100) for v in p]
                    cases.append({'op': 'f', 'form': form, 'kind': 'precip', 'sys': spec, 'sys_kind': es_kind,
                                  'precipitates': [rng.random() < 0.5 for _ in range(npt)],
                                  'y': [rj(v) for v in y], 'params': [rj(v) for v in p]})
                continue
            cases.append({'op': 'structure', 'sys': spec, 'sys_kind': es_kind,
                          'concs': [rj(self._conc(rng, False)) for _ in range(ns)],
                          'init': [rj(self._conc(rng, False)) for _ in range(ns)]})
            if nr >= 2 and ns <= 8 and nr <= 5 and rng.random() < 0.3:
                cases.append(self._gen_history(rng, spec, es_kind))
            if rng.random() < 0.35:
                cases.extend(self._gen_prepost(rng, spec, es_kind))
            if rng.random() < 0.25:
                cases.append({'op': 'q2d', 'sys': spec, 'sys_kind': es_kind,
                              'rows': [[rj(self._conc(rng, True)) for _ in range(ns)] for _ in range(rng.randint(1, 4))]})
            if rng.random() < 0.25:
                allk = sorted({0} | set(ELEMENT_KEYS) | {7, 16, 20, 47})
                cases.append({'op': 'ckeys', 'sys': spec, 'sys_kind': es_kind, 'skip': rng.sample(allk, rng.randint(0, 3)),
                              'n_none': rng.choice([0, 1, 1, 2]), 'none_pos': rng.randint(0, ns)})
            if rng.random() < 0.25:
                cases.append({'op': 'scd', 'sys': spec, 'sys_kind': es_kind,
                              'Ks': [rj(F(rng.randint(1, 9999), 10 ** rng.randint(0, 9))) for _ in range(nr)]})
            if rng.random() < 0.5:
                cases.append({'op': 'solver', 'sys': spec, 'sys_kind': es_kind,
                              'init': [rj(self._conc(rng, True)) for _ in range(ns)],
                              'Ks': [rj(F(rng.randint(1, 4096), 2 ** rng.randint(0, 20))) for _ in range(nr)]})
            for form in ('lin', 'square', 'linrel', 'log'):
                kinds = ['eq', rng.choice(['viol_q', 'viol_total', 'viol_conc'])]
                if form in ('lin', 'square') and rng.random() < 0.6:
                    kinds.append('random')
                for kind in kinds:
                    if kind == 'random':
                        y, p = self._random_state(rng, spec)
                        info = {'kind': 'random'}
                    else:
                        y, p, info = self._planted(rng, spec, form, kind)
                    if info['kind'] == 'viol_q' and 'i' not in info:
                        info['kind'] = 'eq'
                    cases.append({'op': 'f', 'form': form, 'kind': info['kind'], 'sys': spec, 'sys_kind': es_kind,
                                  'precipitates': [], 'y': [rj(v) for v in y], 'params': [rj(v) for v in p]})
                    if kind != 'random' and rng.random() < 0.15:
                        # the same state through new_eq_params=False (constants on the reactions); sometimes one parameter too many
                        cases.append(dict(cases[-1], own=('extra' if rng.random() < 0.2 else 'ok')))
            if rng.random() < (0.6 if tier == 'quick' else 0.3) and ns <= 7 and nr <= 4:
                # every formulation x every reduction configuration, at a planted equilibrium and at a planted violation
                forms = rng.sample(['lin', 'log', 'square', 'linrel'], 3)
                for kind, form in (('eq', forms[0]), ('eq', forms[1]), (rng.choice(['viol_q', 'viol_total', 'viol_conc']), forms[2])):
                    y, p, info = self._planted(rng, spec, form, kind, narrow=True)   # the model side is Float: no overflow
                    if info['kind'] == 'viol_q' and 'i' not in info:
                        continue
                    re_, rp_ = rng.choice([(True, False), (False, True), (True, True)])
                    cases.append({'op': 'rref', 'form': form, 'kind': info['kind'], 'sys': spec, 'sys_kind': es_kind,
                                  'rref_equil': re_, 'rref_preserv': rp_,
                                  'y': [rj(v) for v in y], 'params': [rj(v) for v in p]})
                    if re_ and not (info['kind'] == 'viol_q'):
                        # the reducer hypothesis for the equilibrium block in log coordinates, checked by the MODEL (equilCertSys)
                        cases.append({'op': 'certE', 'sys': spec, 'sys_kind': es_kind, 'params': [rj(v) for v in p]})
                    if rp_:
                        # the reducer hypothesis of the rref theorems for the conservation block, checked by the MODEL (preservCert)
                        cases.append({'op': 'cert', 'sys': spec, 'sys_kind': es_kind, 'params': [rj(v) for v in p]})
            if rng.random() < 0.05:
                y, p, info = self._planted(rng, spec, 'lin', 'eq')
                cases.append({'op': 'lintanh', 'sys': spec, 'sys_kind': es_kind, 'y': [rj(v) for v in y], 'params': [rj(v) for v in p]})
        return cases[:n] if len(cases) > n else cases

    # ------------------------------------------------------------------------- model cases
    def _linrel_y(self, es, c, params):
        """LinRel works in relative variables: y_j = c_j / upper bound (bounds computed here, independently)"""
        ns = len(c)
        m = upper_bounds(es, params[:ns])
        if any(v is None or v == 0 for v in m):
            return None
        return [a / b for a, b in zip(c, m)]

    def _rref_inputs(self, c, es):
        """exact sympy arguments of the real call for an `rref` case: (y, params, state) or None"""
        import sympy as sp
        R = lambda v: sp.Rational(F(v).numerator, F(v).denominator)
        y = [unrj(v) for v in c['y']]
        p = [unrj(v) for v in c['params']]
        form = c['form']
        state = [v * v for v in y] if form == 'square' else y
        if any(v <= 0 for v in state) or any(k <= 0 for k in p[es.ns:]):
            return None
        if form == 'log':
            ys = [sp.log(R(v)) for v in state]
        elif form == 'linrel':
            yy = self._linrel_y(es, state, p)
            if yy is None:
                return None
            ys = [R(v) for v in yy]
        else:
            ys = [R(v) for v in y]
        return ys, [R(v) for v in p], state

    def _model_case_rref(self, c):
        """the reducer (sympy, external) is run here on what chempy hands to it; its output is an INPUT of the model"""
        import sympy as sp
        from pyneqsys.symbolic import linear_rref
        es = build(c['sys'])
        if has_other_phase(es) or es.nr == 0:
            return None
        inp = self._rref_inputs(c, es)
        if inp is None:
            return None
        ys, ps, state = inp
        ns = es.ns
        fl = lambda v: float(sp.N(v, 30))
        redE = {'rA': [], 'rb': []}
        redP = {'rA': [], 'rb': []}
        if c['rref_equil']:
            rA, rb = linear_rref(es.stoichs(), [sp.log(k) for k in ps[ns:]])
            redE = {'rA': [[fbits(fl(rA[i, j])) for j in range(rA.cols)] for i in range(rA.rows)], 'rb': [fbits(fl(v)) for v in rb]}
        if c['rref_preserv']:
            B, _ = es.composition_balance_vectors()
            b = [sum(sp.Integer(x) * v for x, v in zip(row, ps[:ns])) for row in B]
            rA, rb = linear_rref(B, b)
            redP = {'rA': [[fbits(fl(rA[i, j])) for j in range(rA.cols)] for i in range(rA.rows)], 'rb': [fbits(fl(v)) for v in rb]}
        NS = numsys(c['form'])
        if not c['rref_equil'] and c['form'] in ('lin', 'square'):
            # purely rational configuration: compared EXACTLY over Q (no Float, no tolerance)
            B, _ = es.composition_balance_vectors()
            b = [sum(sp.Integer(x) * v for x, v in zip(row, ps[:ns])) for row in B]
            rA, rb = linear_rref(B, b)
            q = lambda v: rj(F(int(sp.Rational(v).p), int(sp.Rational(v).q)))
            return {'op': 'rp_f', 'form': c['form'], 'sys': encode(es), 'src': c['sys'], 'precipitates': [],
                    'small': rj(F(NS.small)), 'rref_preserv': True,
                    'redP': {'rA': [[q(rA[i, j]) for j in range(rA.cols)] for i in range(rA.rows)], 'rb': [q(v) for v in rb]},
                    'y': c['y'], 'params': c['params'],
                    'case': {k: c[k] for k in ('form', 'y', 'params', 'rref_equil', 'rref_preserv')}}
        return {'op': 'cfg_f', 'form': c['form'], 'sys': encode(es), 'src': c['sys'], 'precipitates': [],
                'small': fbits(NS.small), 'rref_equil': bool(c['rref_equil']), 'rref_preserv': bool(c['rref_preserv']),
                'redE': redE, 'redP': redP, 'y': [fbits(fl(v)) for v in ys], 'params': [fbits(fl(v)) for v in ps],
                'case': {k: c[k] for k in ('form', 'y', 'params', 'rref_equil', 'rref_preserv')}}

    def _model_case_certE(self, c):
        """real stoichs_constants(rref=True) output -> coordinates of ln K and ln K' over {ln p} (exact), weights P, L by exact
        linear algebra on (A | E), (A' | E'); the model's decidable `equilCertSys` must accept them"""
        import sympy as sp
        es = build(c['sys'])
        if has_other_phase(es) or es.nr == 0:
            return None
        ns = es.ns
        R = lambda v: sp.Rational(F(v).numerator, F(v).denominator)
        K = [R(unrj(v)) for v in c['params'][ns:]]
        if any(k <= 0 for k in K):
            return None
        A2, K2 = es.stoichs_constants(K, True, backend=sp)
        v1 = [log_vector(sp.log(k)) for k in K]
        v2 = [log_vector(sp.log(k)) for k in K2]
        if any(v is None for v in v1 + v2):
            return None
        primes = sorted({q_ for v in v1 + v2 for q_ in v})
        N = net_matrix(c['sys'])
        E = [[v.get(q_, 0) for q_ in primes] for v in v1]
        E2 = [[v.get(q_, 0) for q_ in primes] for v in v2]
        M = sp.Matrix([[sp.Integer(x) for x in row] + list(e) for row, e in zip(N, E)])
        M2 = sp.Matrix([[sp.Rational(x) for x in row] + list(e) for row, e in zip(A2, E2)]) if A2 else sp.zeros(0, M.cols)

        def weights(src, dst):
            out = []
            for i in range(dst.rows):
                try:
                    sol, par = src.T.gauss_jordan_solve(dst[i, :].T)
                except Exception:
                    return []
                sol = sol.subs({t: 0 for t in par})
                out.append([sol[k] for k in range(sol.rows)])
            return out
        q = lambda v: rj(F(int(sp.Rational(v).p), int(sp.Rational(v).q)))
        return {'op': 'equil_cert', 'sys': encode(es), 'src': c['sys'], 'm': len(primes),
                'P': [[q(v) for v in row] for row in weights(M, M2)], 'L': [[q(v) for v in row] for row in weights(M2, M)],
                'E': [[q(v) for v in row] for row in E], 'A2': [[q(v) for v in row] for row in A2], 'E2': [[q(v) for v in row] for row in E2],
                # the model also certifies K_i = prod_k p_k^E_ik (integer exponents of the rational constants): equilCertFull
                'primes': [int(p_) for p_ in primes], 'Eint': [[int(v) for v in row] for row in E], 'ks': [q(k) for k in K]}

    def _model_case_cert(self, c):
        """run the real reducer on (B | B c0), find weights P, L by exact linear algebra, and let the model's decidable
        `preservCert` accept them (expected answer of the model: true)"""
        import sympy as sp
        from pyneqsys.symbolic import linear_rref
        es = build(c['sys'])
        if has_other_phase(es):
            return None
        ns = es.ns
        R = lambda v: sp.Rational(F(v).numerator, F(v).denominator)
        c0 = [unrj(v) for v in c['params']][:ns]
        B, _ = es.composition_balance_vectors()
        if not B:
            return None
        b = [sum(sp.Integer(x) * R(v) for x, v in zip(row, c0)) for row in B]
        rA, rb = linear_rref(B, b)
        M = sp.Matrix([[sp.Integer(x) for x in row] + [t] for row, t in zip(B, b)])
        M2 = sp.Matrix([[rA[i, j] for j in range(rA.cols)] + [rb[i]] for i in range(rA.rows)])

        def weights(src, dst):
            out = []
            for i in range(dst.rows):
                try:
                    sol, par = src.T.gauss_jordan_solve(dst[i, :].T)
                except Exception:
                    return []
                sol = sol.subs({t: 0 for t in par})
                out.append([sol[k] for k in range(sol.rows)])
            return out
        q = lambda v: rj(F(int(sp.Rational(v).p), int(sp.Rational(v).q)))
        return {'op': 'preserv_cert', 'sys': encode(es), 'src': c['sys'], 'init': [rj(v) for v in c0],
                'P': [[q(v) for v in row] for row in weights(M, M2)], 'L': [[q(v) for v in row] for row in weights(M2, M)],
                'redP': {'rA': [[q(rA[i, j]) for j in range(rA.cols)] for i in range(rA.rows)], 'rb': [q(v) for v in rb]}}

    def model_case(self, c):
        if c['op'] == 'rref':
            return self._model_case_rref(c)
        if c['op'] == 'solver':
            return {'op': 'solver_params', 'init': c['init'], 'rxn_params': c['Ks'], 'src': c['sys']}
        if c['op'] == 'cert':
            return self._model_case_cert(c)
        if c['op'] == 'certE':
            return self._model_case_certE(c)
        if c['op'] in ('prepost', 'q2d', 'ckeys', 'scd'):
            es = build(c['sys'])
            enc = encode(es)
            if c['op'] == 'prepost':
                NS = numsys(c['form'])
                return {'op': 'pre_post', 'form': c['form'], 'dir': c['dir'], 'sys': enc, 'src': c['sys'], 'small': fbits(NS.small),
                        'x': [fbits(unrj(v)) if not isinstance(v, float) else fbits(v) for v in c['x']],
                        'params': [fbits(unrj(v)) for v in c['params']]}
            if c['op'] == 'q2d':
                return {'op': 'quotients2d', 'sys': enc, 'src': c['sys'], 'rows': c['rows']}
            if c['op'] == 'ckeys':
                return {'op': 'composition_keys', 'sys': enc, 'src': c['sys'], 'skip': c['skip'], 'n_none': c['n_none'], 'none_pos': c['none_pos']}
            return {'op': 'stoichs_constants_default', 'sys': enc, 'src': c['sys'], 'rxn_params': c['Ks']}
        if c['op'] not in ('f', 'structure'):
            return None
        es = build(c['sys'])
        enc = encode(es)
        if c['op'] == 'structure':
            # several driver lines per structure case are folded into one composite op list
            return {'op': 'multi', 'sys': enc, 'src': c['sys'], 'concs': c.get('concs'), 'init': c.get('init')}
        form = c['form']
        NS = numsys(form)
        y = [unrj(v) for v in c['y']]
        p = [unrj(v) for v in c['params']]
        if form == 'linrel':
            yy = self._linrel_y(es, y, p)
            if yy is None and any(v is None for v in upper_bounds(es, p[:es.ns])):
                yy = y            # a charge-only species: Python's bound is inf, the model answers "inf" (side condition of linrel_zero_iff)
            elif yy is None:
                return None
            y = yy
        small = F(NS.small)
        mc = {'op': form + '_f', 'sys': enc, 'src': c['sys'], 'precipitates': c['precipitates']}
        own = c.get('own')
        Ks = p[es.ns:]
        if own:          # new_eq_params=False: only init_concs are passed ('extra': one value too many -> AssertionError)
            p = p[:es.ns] + ([F(3, 2)] if own == 'extra' else [])
        if form == 'log':
            if c['kind'] != 'precip':
                y = [math.log(v) for v in y]
            mc.update({'small': fbits(NS.small), 'y': [fbits(v) for v in y], 'params': [fbits(v) for v in p]})
            if own:
                mc['own_params'] = [fbits(v) for v in Ks]
        else:
            mc.update({'small': rj(small), 'y': [rj(v) for v in y], 'params': [rj(v) for v in p]})
            if own:
                mc['own_params'] = [rj(v) for v in Ks]
        return mc

    # ------------------------------------------------------------------------- real code
    def impl(self, mc):
        op = mc['op']
        if op == 'solver_params':
            try:
                es2 = build(mc['src'], [unrj(v) for v in mc['rxn_params']])
                return 'floats:' + json.dumps(captured_solver_params(es2, [unrj(v) for v in mc['init']]))
            except Exception as e:
                return exc_name(e)
        es = build(mc['src'])
        if op == 'multi':
            return self._impl_multi(es, mc)
        if op in ('preserv_cert', 'equil_cert'):
            return 'true'       # the real reducer's output must be certifiably row-equivalent to what chempy handed over
        if op == 'rp_f':
            import sympy as sp
            cc = dict(mc['case'])
            ys, ps, _ = self._rref_inputs(cc, es)
            try:
                r = numsys(cc['form'])(es, backend=sp, rref_equil=False, rref_preserv=True).f(ys, ps)
                return show_rat_list([F(int(sp.Rational(v).p), int(sp.Rational(v).q)) for v in r])
            except Exception as e:
                return exc_name(e)
        if op == 'cfg_f':
            import sympy as sp
            cc = dict(mc['case'])
            ys, ps, _ = self._rref_inputs(cc, es)
            try:
                r = numsys(cc['form'])(es, backend=sp, rref_equil=cc['rref_equil'], rref_preserv=cc['rref_preserv']).f(ys, ps)
                return 'floats:' + json.dumps([float(sp.N(v, 30)) for v in r])
            except Exception as e:
                return exc_name(e)
        if op in ('pre_post', 'quotients2d', 'composition_keys', 'stoichs_constants_default'):
            return self._impl_round7(es, mc)
        form = op[:-2]
        NS = numsys(form)
        if 'own_params' in mc:      # the constants live on the reactions, new_eq_params=False
            Ks = [bits2f(v) for v in mc['own_params']] if form == 'log' else [unrj(v) for v in mc['own_params']]
            try:
                es = build(mc['src'], Ks)
                ns_obj = NS(es, precipitates=tuple(mc['precipitates']), new_eq_params=False)
            except Exception as e:
                return exc_name(e)
        else:
            ns_obj = NS(es, precipitates=tuple(mc['precipitates']))
        try:
            if form == 'log':
                r = ns_obj.f([bits2f(v) for v in mc['y']], [bits2f(v) for v in mc['params']])
                return 'floats:' + json.dumps([float(v) for v in r])
            r = ns_obj.f([unrj(v) for v in mc['y']], [unrj(v) for v in mc['params']])
            if form == 'linrel' or any(isinstance(v, float) for v in r):
                fl = [float(v) for v in r]
                if form == 'linrel' and any(math.isinf(v) or math.isnan(v) for v in fl):
                    return 'inf'          # an infinite upper bound (charge-only species) poisons the residual
                return 'floats:' + json.dumps(fl)   # Square: `small` = 1e-35 is a float
            return show_rat_list(r)
        except Exception as e:
            return exc_name(e)

    def _impl_round7(self, es, mc):
        import numpy as np
        op = mc['op']
        try:
            if op == 'pre_post':
                NS = numsys(mc['form'])
                x = np.array([bits2f(v) for v in mc['x']])
                params = np.array([bits2f(v) for v in mc['params']])
                fn = NS(es).pre_processor if mc['dir'] == 'pre' else NS(es).post_processor
                if mc['form'] == 'linrel' and not np.all(np.isfinite(NS(es).max_concs(params))):
                    return 'inf'        # a charge-only species has the bound inf (side condition of linrel_zero_iff); the model says "inf"
                with np.errstate(all='ignore'):
                    out, p2 = fn(x, params)
                if list(map(float, p2)) != list(map(float, params)):
                    return '!params-changed'
                return 'floats:' + json.dumps([float(v) for v in out])
            if op == 'quotients2d':
                rows = np.array([[float(unrj(v)) for v in r] for r in mc['rows']])
                q = es.equilibrium_quotients(rows)
                return 'floats2:' + json.dumps([[float(v) for v in row] for row in q])
            if op == 'composition_keys':
                from chempy.chemistry import Substance, Species
                subs = list(es.substances.values()) + [Species('Zz%d' % i) for i in range(mc['n_none'])]   # composition None
                pos = mc.get('none_pos', 0) % (len(subs) + 1 - mc['n_none']) if mc['n_none'] else 0
                if mc['n_none']:
                    subs = subs[:pos] + subs[len(subs) - mc['n_none']:] + subs[pos:len(subs) - mc['n_none']]
                return show_int_list(Substance.composition_keys(subs, tuple(mc['skip'])))
            if op == 'stoichs_constants_default':
                es2 = build(mc['src'], [unrj(v) for v in mc['rxn_params']])
                A, ks = es2.stoichs_constants()
                return '[' + ','.join(show_int_list(r) for r in A) + ']|' + show_rat_list(ks)
        except Exception as e:
            return exc_name(e)
        return '!unknown-op'

    def _impl_multi(self, es, mc):
        out = []
        B, ck = es.composition_balance_vectors()
        out.append('[' + ','.join(show_int_list(r) for r in B) + ']|' + show_int_list(ck))
        out.append(show_int_list(es.phase_transfer_reaction_idxs()))
        for ri, r in enumerate(es.rxns):
            try:
                net, v, i = r.precipitate_stoich(es.substances)
                out.append('%s|%d|%d' % (show_int_list(net), v, i))
            except Exception as e:
                out.append(exc_name(e))
        if mc.get('concs') is not None:
            concs = [unrj(v) for v in mc['concs']]
            init = [unrj(v) for v in mc['init']]
            try:
                out.append(show_rat_list(es.equilibrium_quotients(concs)))
            except Exception as e:
                out.append(exc_name(e))
            ck2, a, b = es.composition_conservation([float(v) for v in concs], [float(v) for v in init])
            out.append('cons:' + json.dumps([list(map(int, ck2)), [float(v) for v in a], [float(v) for v in b]]))
            try:
                ub = es.upper_conc_bounds(init, dtype=object)
                out.append('floats:' + json.dumps([float(v) for v in ub]))
            except Exception as e:
                out.append(exc_name(e))
        return '\n'.join(out)

    # the driver answers one line per input line, so a structure case is expanded by the framework-independent
    # trick of a composite op: see `expand_multi` used in `same`
    def same(self, mc, io, mo):
        if mc['op'] == 'multi':
            return self._same_multi(mc, io, mo)
        if mc['op'] in ('rp_f', 'preserv_cert', 'equil_cert'):
            return io == mo
        if mc['op'] == 'cfg_f':
            return self._same_cfg(mc, io, mo)
        if mc['op'] == 'pre_post':
            try:
                a, b = json.loads(io[7:]), [bits2f(x) for x in json.loads(mo)]
                return io.startswith('floats:') and len(a) == len(b) and all(close(x, z, 1e-12, 1e-300) for x, z in zip(a, b))
            except Exception:
                return io == mo
        if mc['op'] == 'quotients2d':
            try:
                a = json.loads(io[8:])
                b = [parse_rat_list(x + ']') if not x.endswith(']') else parse_rat_list(x) for x in mo[1:-1].replace('],[', ']|[').split('|')] if mo != '[]' else []
                return io.startswith('floats2:') and len(a) == len(b) and all(
                    len(u) == len(v) and all(close(x, z, 1e-12, 1e-300) for x, z in zip(u, v)) for u, v in zip(a, b))
            except Exception:
                return io == mo
        if mc['op'] in ('composition_keys', 'stoichs_constants_default'):
            return io == mo
        if mc['op'] == 'solver_params':
            try:
                a, b = json.loads(io[7:]), parse_rat_list(mo)
                return io.startswith('floats:') and len(a) == len(b) and all(close(x, z, 1e-15, 0.0) for x, z in zip(a, b))
            except Exception:
                return False
        form = mc['op'][:-2]
        if not io.startswith('floats:'):
            return io == mo
        try:
            a = json.loads(io[7:])
            if form == 'log':
                b = [bits2f(x) for x in json.loads(mo)]
            else:
                b = [float(F(x)) for x in parse_rat_list(mo)]
        except Exception:
            return False
        if len(a) != len(b):
            return False
        scales = self._row_scales(mc, form)
        for x, y, s in zip(a, b, scales):
            if math.isnan(x) or math.isnan(y):
                if not (math.isnan(x) and math.isnan(y)):
                    return False
                continue
            if math.isinf(x) or math.isinf(y):
                if x != y:
                    return False
                continue
            if abs(x - y) > self.float_tol * (s + max(abs(x), abs(y))):
                return False
        return True

    def _same_cfg(self, mc, io, mo):
        if not io.startswith('floats:'):
            return io == mo
        try:
            a = json.loads(io[7:])
            b = [bits2f(x) for x in json.loads(mo)]
        except Exception:
            return False
        if len(a) != len(b):
            return False
        es = build(mc['src'])
        ns, nr = es.ns, es.nr
        form = mc['form']
        y = [bits2f(v) for v in mc['y']]
        p = [bits2f(v) for v in mc['params']]
        if form == 'log':
            c = [math.exp(v) for v in y]
        elif form == 'square':
            c = [v * v for v in y]
        elif form == 'linrel':
            m = upper_bounds(es, [unrj(v) for v in mc['case']['params']][:ns])
            c = [float(mm) * v for mm, v in zip(m, y)]
        else:
            c = y
        lc = [abs(math.log(v)) for v in c]
        keys, B = comp_matrix(es)
        if mc['rref_equil']:
            rowsE = [[bits2f(x) for x in row] for row in mc['redE']['rA']]
            rbE = [bits2f(x) for x in mc['redE']['rb']]
        else:
            rowsE = [[float(x) for x in row] for row in net_matrix(mc['src'])]
            rbE = [math.log(k) for k in p[ns:]]
        scE = [1.0 + sum(abs(x) * l for x, l in zip(row, lc)) + abs(t) for row, t in zip(rowsE, rbE)]
        if mc['rref_preserv']:
            rowsP = [[bits2f(x) for x in row] for row in mc['redP']['rA']]
            scP = [1.0 + sum(abs(x) * abs(v) for x, v in zip(row, c)) + abs(bits2f(t)) for row, t in zip(rowsP, mc['redP']['rb'])]
        else:
            scP = [1.0 + sum(abs(x) * abs(v) for x, v in zip(row, c)) + sum(abs(x) * abs(v) for x, v in zip(row, p[:ns])) for row in B]
        if len(scE) + len(scP) != len(a):
            return False
        for i, (x, z) in enumerate(zip(a, b)):
            if math.isnan(x) or math.isnan(z) or math.isinf(x) or math.isinf(z):
                return False
            if i < len(scE):
                tol = 1e-9 * scE[i] * ((1.0 + max(abs(x), abs(z))) if form != 'log' else 1.0)
            else:
                tol = 1e-9 * scP[i - len(scE)]
            if abs(x - z) > tol:
                return False
        return True

    def _row_scales(self, mc, form):
        """magnitude of the terms summed in each residual row (float comparisons are relative to it)"""
        es = build(mc['src'])
        ns, nr = es.ns, es.nr
        keys, B = comp_matrix(es)
        if form == 'log':
            y = [bits2f(v) for v in mc['y']]
            p = [bits2f(v) for v in mc['params']]
            with_exp = []
            for v in y:
                try:
                    with_exp.append(math.exp(v))
                except OverflowError:
                    with_exp.append(float('inf'))
            sc = []
            for ri in range(nr):
                sc.append(1.0 + sum(abs(v) for v in y) * 4 + 80.0)
            for row in B:
                sc.append(1.0 + sum(abs(b) * abs(v) for b, v in zip(row, with_exp)) + sum(abs(b) * abs(v) for b, v in zip(row, p[:ns])))
            return sc
        y = [float(unrj(v)) for v in mc['y']]
        p = [float(unrj(v)) for v in mc['params']]
        if form == 'linrel':
            m = upper_bounds(es, [unrj(v) for v in mc['params']][:ns])
            c = [float(a) * v for a, v in zip(m, y)]
        elif form == 'square':
            c = [v * v for v in y]
        else:
            c = y
        sc = [1.0] * nr
        for row in B:
            sc.append(1.0 + sum(abs(b) * abs(v) for b, v in zip(row, c)) + sum(abs(b) * abs(v) for b, v in zip(row, p[:ns])))
        return sc

    def _same_multi(self, mc, io, mo):
        il = io.split('\n')
        ml = mo.split(';;')
        if len(il) != len(ml):
            return False
        for a, b in zip(il, ml):
            if a.startswith('cons:'):
                try:
                    ck, x, y = json.loads(a[5:])
                    mk, mx, my = b.split('|')
                    if show_int_list(ck) != mk:
                        return False
                    for u, v in ((x, parse_rat_list(mx)), (y, parse_rat_list(my))):
                        if len(u) != len(v) or not all(close(s, t, 1e-9, 1e-300) for s, t in zip(u, v)):
                            return False
                except Exception:
                    return False
            elif a.startswith('floats:'):
                try:
                    u, v = json.loads(a[7:]), parse_rat_list(b)
                    if len(u) != len(v) or not all(close(s, t, 1e-9, 1e-300) for s, t in zip(u, v)):
                        return False
                except Exception:
                    if not (b == 'inf' and any(math.isinf(t) for t in json.loads(a[7:]))):
                        return False
            elif a != b:
                return False
        return True

    # ------------------------------------------------------------------------- oracle
    def oracle(self, c, _es=None):
        op = c['op']
        if op == 'history':
            return self._oracle_history(c)
        if op == 'structure':
            return self._oracle_structure(c)
        if op == 'lintanh':
            return self._oracle_lintanh(c)
        if op == 'prepost':
            return self._oracle_prepost(c)
        if op == 'q2d':
            es = build(c['sys'])
            if has_other_phase(es) or es.nr == 0:
                return None
            import numpy as np
            N = net_matrix(c['sys'])
            rows = [[unrj(v) for v in r] for r in c['rows']]
            q = es.equilibrium_quotients(np.array([[float(v) for v in r] for r in rows]))
            if len(q) != len(N):
                return 'equilibrium_quotients(2-d) returned %d entries for %d reactions' % (len(q), len(N))
            for ri, (qi, nu) in enumerate(zip(q, N)):
                if len(qi) != len(rows):
                    return 'equilibrium_quotients(2-d): %d values for %d states' % (len(qi), len(rows))
                for v, r in zip(qi, rows):
                    if not close(v, quotient(r, nu), 1e-12, 1e-300):
                        return 'equilibrium_quotients(2-d): reaction %d gives %r, prod c^nu = %r' % (ri, float(v), float(quotient(r, nu)))
            return None
        if op == 'ckeys':
            from chempy.chemistry import Substance, Species
            es = build(c['sys'])
            subs = [Species('Zz')] * c['n_none'] + list(es.substances.values())
            got = Substance.composition_keys(subs, tuple(c['skip']))
            want = sorted({k for s_ in es.substances.values() for k in s_.composition} - set(c['skip']))
            if list(got) != want:
                return 'composition_keys(..., skip_keys=%r) = %r, expected the sorted occurring keys without the skipped ones %r' % (c['skip'], got, want)
            return None
        if op == 'scd':
            Ks = [unrj(v) for v in c['Ks']]
            es2 = build(c['sys'], Ks)
            if has_other_phase(es2):
                return None
            A, ks = es2.stoichs_constants()
            if [[int(v) for v in row] for row in A] != net_matrix(c['sys']) or list(ks) != Ks:
                return 'stoichs_constants() with defaults is not (net stoichiometry, [rxn.param])'
            return None
        if op == 'solver':
            msg = self._oracle_root_forwarding(c)
            if msg:
                return msg
            Ks = [unrj(v) for v in c['Ks']]
            init = [unrj(v) for v in c['init']]
            es2 = build(c['sys'], Ks)
            if has_other_phase(es2):
                return None
            if list(es2.eq_constants()) != Ks:
                return 'eq_constants() = %r but the reactions carry %r' % (es2.eq_constants(), Ks)
            got = captured_solver_params(es2, init)
            want = [float(v) for v in init + Ks]
            if got != want:
                return 'root() hands params %r to the solver, expected init_concs ++ [rxn.param] = %r' % (got, want)
            return None
        if op not in ('f', 'rref'):
            return None
        if c.get('kind') == 'precip':
            return None
        es = _es if _es is not None else build(c['sys'])      # _es: the live object of a history
        if has_other_phase(es):
            return None
        if es.nr == 0:
            return None      # degenerate: NumSysLin.f raises TypeError without reactions (mirrored by the model, see notes)
        N = net_matrix(c['sys'])
        ns, nr = es.ns, len(N)
        if es.nr != nr:
            return 'the system reports nr = %d but %d reactions have been given to it' % (es.nr, nr)
        keys, B = comp_matrix(es)
        y = [unrj(v) for v in c['y']]
        p = [unrj(v) for v in c['params']]
        c0, K = p[:ns], p[ns:]
        form = c['form']
        state = [v * v for v in y] if form == 'square' else y
        # what the property says, computed here
        if any(x == 0 and n < 0 for row in N for x, n in zip(state, row)):
            return None                      # quotient undefined; the real code raises ZeroDivisionError
        want_q = [quotient(state, N[i]) == K[i] for i in range(nr)]
        want_t = [dot(row, state) == dot(row, c0) for row in B]
        if op == 'rref':
            return self._oracle_rref(c, es, state, p, want_q, want_t, N, B)
        NS = numsys(form)
        nsys = NS(es)
        pp = list(p)
        if c.get('own'):
            # new_eq_params=False: the object's own constants (set on the reactions), params = init_concs only
            es = build(c['sys'], list(K))
            nsys = NS(es, new_eq_params=False)
            pp = list(c0)
            if c['own'] == 'extra':
                try:
                    nsys.f([F(1)] * ns if form != 'log' else [0.0] * ns, (pp + [F(3, 2)]) if form != 'log' else [float(v) for v in pp] + [1.5])
                except AssertionError:
                    return None
                except Exception as e:
                    return '%s(new_eq_params=False).f with ns+1 parameters raised %s, not AssertionError' % (NS.__name__, exc_name(e))
                return '%s(new_eq_params=False).f accepted ns+1 parameters' % NS.__name__
        exact = form in ('lin', 'square')
        try:
            if exact:
                r = nsys.f(list(y), list(pp))
            elif form == 'linrel':
                yy = self._linrel_y(es, y, p)
                if yy is None:
                    return None
                r = [float(v) for v in nsys.f(yy, list(pp))]
            else:
                if any(v <= 0 for v in y) or any(k <= 0 for k in K):
                    return None
                if c.get('own'):
                    es = build(c['sys'], [float(k) for k in K])
                    nsys = NS(es, new_eq_params=False)
                r = [float(v) for v in nsys.f([math.log(v) for v in y], [float(v) for v in pp])]
        except Exception as e:
            return '%s.f raised %s: %s' % (NS.__name__, exc_name(e), str(e)[:100])
        if len(r) != nr + len(keys):
            return '%s.f returned %d equations, expected nr + #composition keys = %d + %d' % (NS.__name__, len(r), nr, len(keys))
        if exact:
            for i in range(nr):
                if (r[i] == 0) != want_q[i]:
                    return '%s.f: residual %d is %s but Q_i %s K_i' % (NS.__name__, i, r[i], '==' if want_q[i] else '!=')
            for k in range(len(keys)):
                if (r[nr + k] == 0) != want_t[k]:
                    return '%s.f: conservation residual for key %d is %s but totals %s' % (
                        NS.__name__, keys[k], r[nr + k], 'agree' if want_t[k] else 'differ')
            # same through sympy.Rational (the type the symbolic solver path uses)
            import sympy as sp
            if all(v != 0 for v in state):
                rs = nsys.__class__(es, backend=sp, new_eq_params=not c.get('own')).f(
                    [sp.Rational(v.numerator, v.denominator) for v in y], [sp.Rational(F(v).numerator, F(v).denominator) for v in pp])
                if [F(int(sp.numer(v)), int(sp.denom(v))) for v in rs] != [F(v) for v in r]:
                    return '%s.f differs between Fraction and sympy.Rational arguments' % NS.__name__
            return None
        # float formulations: only planted states carry a verdict (violations are >= 1/8 relative)
        if c['kind'] == 'random':
            return None
        scale = [1.0] * nr + [1.0 + sum(abs(b) * float(abs(v)) for b, v in zip(row, state)) + sum(abs(b) * float(abs(v)) for b, v in zip(row, c0))
                              for row in B]
        if form == 'log':
            scale = [1.0 + 4 * sum(abs(math.log(v)) for v in y) for _ in range(nr)] + scale[nr:]
        for idx, (v, w) in enumerate(zip(r, want_q + want_t)):
            if w and not abs(v) <= 1e-9 * scale[idx]:
                return '%s.f: residual %d is %r at a state satisfying its equation' % (NS.__name__, idx, v)
            if not w and not abs(v) >= 1e-7 * scale[idx]:
                return '%s.f: residual %d is %r at a state violating its equation' % (NS.__name__, idx, v)
        return None

    def _oracle_rref(self, c, es, state, p, want_q, want_t, N, B):
        import sympy as sp
        NS = numsys(c['form'])
        R = lambda v: sp.Rational(v.numerator, v.denominator)
        if any(v <= 0 for v in state) or any(k <= 0 for k in p[es.ns:]):
            return None
        nsys = NS(es, backend=sp, rref_equil=c['rref_equil'], rref_preserv=c['rref_preserv'])
        form = c['form']
        if form == 'log':
            y = [sp.log(R(v)) for v in state]
        elif form == 'square':
            y = [R(unrj(v)) for v in c['y']]                 # the variables are the (signed) square roots
        elif form == 'linrel':
            yy = self._linrel_y(es, state, p)
            if yy is None:
                return None
            y = [R(v) for v in yy]
        else:
            y = [R(v) for v in state]
        try:
            r = nsys.f(y, [R(v) for v in p])
            vals = [abs(complex(sp.N(v, 40))) for v in r]
        except Exception as e:
            return '%s.f(rref_equil=%s, rref_preserv=%s) raised %s: %s' % (NS.__name__, c['rref_equil'], c['rref_preserv'], exc_name(e), str(e)[:100])
        msg = self._check_row_equiv(c, es, N, B, p)
        if msg:
            return msg
        nr = es.nr
        rankA = sp.Matrix(N).rank() if N else 0
        rankB = sp.Matrix(B).rank() if B else 0
        n_pr = rankB if c['rref_preserv'] else len(B)
        n_eq = len(r) - n_pr
        # row-reduced equilibrium block: rank of (A | ln K); = rank A when the constants of dependent reactions
        # are consistent (always at a planted equilibrium), rank A + 1 when a violated K makes them inconsistent
        ok_eq = (n_eq == nr) if not c['rref_equil'] else (n_eq == rankA or (c['kind'] == 'viol_q' and rankA < nr and n_eq == rankA + 1))
        if not ok_eq:
            return '%s.f(rref_equil=%s, rref_preserv=%s) has %d equations, expected %d + %d' % (
                NS.__name__, c['rref_equil'], c['rref_preserv'], len(r), rankA if c['rref_equil'] else nr, n_pr)
        is_eq = all(want_q) and all(want_t)
        thr = 1e-25
        if form == 'linrel':       # upper_conc_bounds accumulates in a Python float: 15-16 digits only
            mb = max([abs(b) for row in B for b in row] + [1])
            thr = 1e-9 * (1.0 + mb * float(sum(abs(v) for v in state) + sum(abs(v) for v in p[:es.ns])))
        zero = all(v < thr for v in vals)
        if is_eq and not zero:
            return '%s.f(rref...) non-zero (%r) at an equilibrium state' % (NS.__name__, max(vals))
        if not is_eq and zero:
            return '%s.f(rref...) is zero at a state violating %s' % (NS.__name__, c['kind'])
        if not is_eq:
            # block-wise: a violated quotient shows in the equilibrium block, a violated total in the conservation block
            if not all(want_q) and all(v < thr for v in vals[:n_eq]):
                return '%s.f(rref...) equilibrium block zero although a quotient is violated' % NS.__name__
            if not all(want_t) and all(v < thr for v in vals[n_eq:]):
                return '%s.f(rref...) conservation block zero although a total is violated' % NS.__name__
        return None

    def _check_row_equiv(self, c, es, N, B, p):
        """the hypothesis `RowEquiv` of the rref theorems, checked exactly on what the real code produced:
        rows of (A' | ln K') and of (A | ln K) span the same space (logs in coordinates over {log prime}),
        the reduced rows are independent; likewise for the conservation system (B | B c0)"""
        import sympy as sp
        from pyneqsys.symbolic import linear_rref
        R = lambda v: sp.Rational(F(v).numerator, F(v).denominator)
        ns = es.ns
        if c['rref_equil']:
            K = [R(k) for k in p[ns:]]
            A2, K2 = es.stoichs_constants(K, True, backend=sp)
            if len(A2) != len(K2):
                return 'stoichs_constants(rref=True) returned %d rows but %d constants' % (len(A2), len(K2))
            v1 = [log_vector(sp.log(k)) for k in K]
            v2 = [log_vector(sp.log(k)) for k in K2]
            inconsistent = c['kind'] == 'viol_q' and sp.Matrix(N).rank() < len(N)
            if inconsistent:
                # dependent reactions with inconsistent constants: rref normalises the row (0 … 0 | δ) to (0 … 0 | 1), an
                # IRRATIONAL multiple (δ is a log); row-equivalent over R but not expressible in rational coordinates
                v1 = v2 = None
            elif any(v is None for v in v1 + v2):
                return 'stoichs_constants(rref=True): a reduced constant is not a rational power product of the given constants'
            if v1 is not None:
                primes = sorted({q for v in v1 + v2 for q in v})
                M1 = [[sp.Integer(x) for x in row] + [v.get(q, 0) for q in primes] for row, v in zip(N, v1)]
                M2 = [[sp.Rational(x) for x in row] + [v.get(q, 0) for q in primes] for row, v in zip(A2, v2)]
                if not same_row_space(M1, M2):
                    return "stoichs_constants(rref=True): the reduced system (A', ln K') is not row-equivalent to (A, ln K)"
                if M2 and sp.Matrix(M2).rank() != len(M2):
                    return 'stoichs_constants(rref=True): the reduced rows are linearly dependent'
        if c['rref_preserv'] and B:
            b = [sum(sp.Integer(x) * R(v) for x, v in zip(row, p[:ns])) for row in B]
            rA, rb = linear_rref(B, b)
            M1 = [[sp.Integer(x) for x in row] + [t] for row, t in zip(B, b)]
            M2 = [[rA[i, j] for j in range(rA.cols)] + [rb[i]] for i in range(rA.rows)]
            if not same_row_space(M1, M2) or (M2 and sp.Matrix(M2).rank() != len(M2)):
                return 'linear_rref(B, B c0) is not a row-equivalent independent system'
        return None

    def _oracle_prepost(self, c):
        """residual(pre_processor(state)) vanishes iff the state is an equilibrium with the initial totals, and
        post_processor(pre_processor(state)) gives the state back (Log: shifted by `small`)"""
        import numpy as np
        es = build(c['sys'])
        if has_other_phase(es) or es.nr == 0:
            return None
        if c['dir'] == 'post':
            return self._oracle_post(c, es)
        form = c['form']
        NS = numsys(form)
        nsys = NS(es)
        ns, nr = es.ns, es.nr
        N = net_matrix(c['sys'])
        keys, B = comp_matrix(es)
        cc = [unrj(v) for v in c['c']]
        p = [unrj(v) for v in c['params']]
        c0, K = p[:ns], p[ns:]
        if form == 'linrel' and self._linrel_y(es, cc, p) is None:
            return None
        params = np.array([float(v) for v in p])
        with np.errstate(all='ignore'):
            x, _ = nsys.pre_processor(np.array([float(v) for v in cc]), params)
            back, _ = nsys.post_processor(x, params)
        shift = NS.small if form == 'log' else 0.0
        for j, (b, v) in enumerate(zip(back, cc)):
            if not close(b, float(v) + shift, 1e-12, 1e-300):
                return '%s: post_processor(pre_processor(c))[%d] = %r for c = %r' % (NS.__name__, j, float(b), float(v))
        try:
            r = [float(v) for v in nsys.f(list(x), list(params))]
        except Exception as e:
            return '%s.f(pre_processor(state)) raised %s' % (NS.__name__, exc_name(e))
        want = [quotient(cc, N[i]) == K[i] for i in range(nr)] + [dot(row, cc) == dot(row, c0) for row in B]
        if len(r) != len(want):
            return '%s.f(pre_processor(state)) has %d equations, expected %d' % (NS.__name__, len(r), len(want))
        scale = [1.0] * nr + [1.0 + sum(abs(b) * float(abs(v)) for b, v in zip(row, cc)) + sum(abs(b) * float(abs(v)) for b, v in zip(row, c0)) for row in B]
        if form == 'log':
            scale = [1.0 + 4 * sum(abs(math.log(v)) for v in cc) for _ in range(nr)] + scale[nr:]
        for idx, (v, w) in enumerate(zip(r, want)):
            if w and not abs(v) <= 1e-9 * scale[idx]:
                return '%s.f(pre_processor(state)): residual %d is %r at a state satisfying its equation' % (NS.__name__, idx, v)
            if not w and not abs(v) >= 1e-7 * scale[idx]:
                return '%s.f(pre_processor(state)): residual %d is %r at a state violating its equation' % (NS.__name__, idx, v)
        return None

    def _oracle_post(self, c, es):
        """at ARBITRARY solver variables x (any sign): the residual f(x) is the residual of the concentrations post_processor(x) —
        entry i equals Q_i(post(x))/K_i - 1 (Log: ln Q_i - ln K_i), entry nr+k equals B_k·post(x) - B_k·c0 — so that a root of f
        is reported by post_processor as the equilibrium state it stands for"""
        import numpy as np
        form = c['form']
        NS = numsys(form)
        nsys = NS(es)
        ns, nr = es.ns, es.nr
        N = net_matrix(c['sys'])
        keys, B = comp_matrix(es)
        p = [float(unrj(v)) for v in c['params']]
        c0, K = p[:ns], p[ns:]
        x = [float(v) for v in c['x']]
        if form == 'linrel' and self._linrel_y(es, [F(1)] * ns, [unrj(v) for v in c['params']]) is None:
            return None
        if any(k <= 0 for k in K):
            return None
        with np.errstate(all='ignore'):
            conc, _ = nsys.post_processor(np.array(x), np.array(p))
        conc = [float(v) for v in conc]
        if any(v == 0 for v in conc):
            return None
        try:
            r = [float(v) for v in nsys.f(list(x), list(p))]
        except Exception as e:
            return '%s.f raised %s at solver variables %r' % (NS.__name__, exc_name(e), x)
        want = []
        for i in range(nr):
            q = 1.0
            for v, n in zip(conc, N[i]):
                q *= v ** n
            want.append((math.log(q) - math.log(K[i])) if form == 'log' else q / K[i] - 1)
        for row in B:
            want.append(sum(b * v for b, v in zip(row, conc)) - sum(b * v for b, v in zip(row, c0)))
        if len(r) != len(want):
            return '%s.f has %d equations, expected %d' % (NS.__name__, len(r), len(want))
        for idx, (a, b) in enumerate(zip(r, want)):
            sc = 1.0 + abs(b) + (sum(abs(v) for v in conc) * 10 if idx >= nr else (sum(abs(math.log(abs(v))) for v in conc) * 4 if form == 'log' else 0.0))
            if not abs(a - b) <= 1e-9 * sc * (1 + abs(b)):
                return '%s: residual %d at x is %r, but the concentrations post_processor(x) give %r' % (NS.__name__, idx, a, b)
        return None

    def _oracle_root_forwarding(self, c):
        """EqSystem.root without a ready solver: the formulation and the reduction configuration asked for are the ones handed to
        get_neqsys, the parameter vector is init_concs ++ [rxn.param], and the failure warning appears exactly when the solver
        reports no success"""
        import warnings
        import numpy as np
        Ks = [unrj(v) for v in c['Ks']]
        init = [unrj(v) for v in c['init']]
        es2 = build(c['sys'], Ks)
        if has_other_phase(es2):
            return None
        h = sum(v.numerator for v in init) % 8
        NS = numsys(['lin', 'log', 'square', 'linrel'][h % 4])
        re_, rp_ = bool(h & 1), bool(h & 4)
        for success in (True, False):
            box = {}

            class Capture:
                def solve(self, x0, params, **kw):
                    box['params'] = [float(v) for v in params]
                    return np.asarray(x0, dtype=float), {'success': success}

            def fake_get_neqsys(neqsys_type, **kw):
                box['type'], box['kw'] = neqsys_type, kw
                return Capture()
            es2.get_neqsys = fake_get_neqsys
            with warnings.catch_warnings(record=True) as w:
                warnings.simplefilter('always')
                x, sol, sane = es2.root([float(v) for v in init], NumSys=NS, rref_equil=re_, rref_preserv=rp_)
            del es2.get_neqsys
            kw = box.get('kw', {})
            if box.get('type') != 'chained_conditional' or kw.get('NumSys') is not NS or kw.get('rref_equil') != re_ or kw.get('rref_preserv') != rp_:
                return 'root(NumSys=%s, rref_equil=%s, rref_preserv=%s) asked get_neqsys for %r %r' % (NS.__name__, re_, rp_, box.get('type'), kw)
            if box.get('params') != [float(v) for v in init + Ks]:
                return 'root() hands params %r to the solver, expected init_concs ++ [rxn.param]' % box.get('params')
            warned = any('indicated as failed' in str(m.message) for m in w)
            if warned == success:
                return 'root(): solver success=%s but failure warning %s' % (success, 'emitted' if warned else 'missing')
        return None

    def _oracle_history(self, c):
        """ONE EqSystem object through a history: evaluate, `eqsys += [Equilibrium…]`, set `rxn.param` in place, evaluate again …
        every evaluation is judged against the object's CURRENT reactions and constants (the reactions as written in the
        steps so far): zero pattern entry by entry, equation count = current nr + conservation relations"""
        from chempy import Equilibrium
        base = c['sys']
        cur_species = list(c.get('initial_species') or base['species'])
        es = build({'species': cur_species, 'rxns': c['initial_rxns']}, Ks=[1] * len(c['initial_rxns']))   # fresh, uncached
        if has_other_phase(es):
            return None
        cur = list(c['initial_rxns'])
        done = []
        for si, st in enumerate(c['steps']):
            if st['do'] == 'add_bad':
                before = (list(es.substances.keys()), len(es.rxns))
                try:
                    es += [42]
                except ValueError:
                    pass
                except Exception as e:
                    return 'step %d: `eqsys += [42]` raised %s, not ValueError' % (si, exc_name(e))
                else:
                    return 'step %d: `eqsys += [42]` was accepted' % si
                if (list(es.substances.keys()), len(es.rxns)) != before:
                    return 'step %d: a refused `+=` changed the system' % si
                done.append('+= [42] refused')
                continue
            if st['do'] == 'add_system':
                other = build({'species': st['species'], 'rxns': st['rxns']}, Ks=[1] * len(st['rxns']))
                es += other
                known = {sp['name'] for sp in cur_species}
                cur_species = cur_species + [sp for sp in st['species'] if sp['name'] not in known]
                cur = cur + list(st['rxns'])
                done.append('+= EqSystem(%d rxns, %d substances)' % (len(st['rxns']), len(st['species'])))
                continue
            if st['do'] == 'add':
                new = [Equilibrium({k: v for k, v in r['reac']}, {k: v for k, v in r['prod']}, 1,
                                   inact_reac={k: v for k, v in r['inact_reac']}, inact_prod={k: v for k, v in r['inact_prod']})
                       for r in st['rxns']]
                es += new
                cur = cur + list(st['rxns'])
                done.append('+= %d' % len(new))
                continue
            now_species = st.get('species') or base['species']
            if [sp['name'] for sp in now_species] != list(es.substances.keys()):
                return 'step %d (%s): substances are %r, expected %r' % (si, ', '.join(done), list(es.substances.keys()), [sp['name'] for sp in now_species])
            sub = {'op': 'rref' if (st['rref_equil'] or st['rref_preserv']) else 'f', 'form': st['form'], 'kind': st['kind'],
                   'sys': {'species': now_species, 'rxns': cur}, 'sys_kind': c['sys_kind'], 'precipitates': [],
                   'rref_equil': st['rref_equil'], 'rref_preserv': st['rref_preserv'], 'y': st['y'], 'params': list(st['params'])}
            if st.get('own'):
                # the constants live on the reactions: set them in place, evaluate with the object's own eq_constants()
                ns = len(now_species)
                Ks = [unrj(v) for v in st['params'][ns:]]
                if len(es.rxns) == len(Ks):
                    for r_, k_ in zip(es.rxns, Ks):
                        r_.param = k_
                    own = list(es.eq_constants())
                    if own != Ks:
                        return 'step %d (%s): eq_constants() = %r after setting rxn.param in place to %r' % (si, ', '.join(done), own, Ks)
                    sub['params'] = st['params'][:ns] + [rj(v) for v in own]
            msg = self.oracle(sub, _es=es)
            if msg:
                return 'step %d of a history on one EqSystem object (after %s; %s %s rref_equil=%s rref_preserv=%s): %s' % (
                    si, ', '.join(done) or 'construction', st['form'], st['kind'], st['rref_equil'], st['rref_preserv'], msg)
            done.append('eval ' + st['form'])
        return None

    def _oracle_structure(self, c):
        es = build(c['sys'])
        N = net_matrix(c['sys'])
        if not has_other_phase(es):
            got = [[int(v) for v in row] for row in es.stoichs()]
            if got != N:
                return 'stoichs() = %r but net stoichiometry of the written reactions is %r' % (got, N)
            if 'concs' in c:
                concs = [unrj(v) for v in c['concs']]
                q = es.equilibrium_quotients(concs)
                want = [quotient(concs, row) for row in N]
                if [F(v) for v in q] != want:
                    return 'equilibrium_quotients differs from prod c^nu'
        keys, B = comp_matrix(es)
        Bv, ck = es.composition_balance_vectors()
        if list(ck) != keys or [list(r) for r in Bv] != B:
            return 'composition_balance_vectors differs from the species compositions'
        # balanced reactions: B N^T = 0 (what makes reaction extents preserve the totals)
        for row in N:
            for k, brow in zip(keys, B):
                if sum(a * b for a, b in zip(brow, row)) != 0:
                    return 'reaction %r does not conserve composition key %d although the constructor accepted it' % (row, k)
        return None

    def _oracle_lintanh(self, c):
        """NumSysLinTanh: on the pinned tree `f` raises TypeError for every input (open known finding).  Should it ever return,
        the same claim as for the other formulations applies: zero at the pre-image of the planted equilibrium."""
        import numpy as np
        from chempy._eqsys import NumSysLinTanh
        es = build(c['sys'])
        if has_other_phase(es) or es.nr == 0:
            return None
        p = [float(unrj(v)) for v in c['params']]
        conc = [float(unrj(v)) for v in c['y']]
        try:
            nsys = NumSysLinTanh(es)
            with np.errstate(all='ignore'):
                x, _ = nsys.pre_processor(np.array(conc), np.array(p))
            r = nsys.f(list(x), list(p))
        except TypeError as e:
            if ('C07', 'lintanh-typeerror') in load_known()[0]:
                return 'NumSysLinTanh.f raises TypeError: %s' % str(e)[:80]
            return None
        except Exception as e:
            return 'NumSysLinTanh.f raised %s: %s' % (exc_name(e), str(e)[:80])
        try:
            vals = [abs(complex(v)) for v in r]
        except Exception:
            return 'NumSysLinTanh.f returned non-numeric entries at a numeric state'
        keys, B = comp_matrix(es)
        if len(vals) != es.nr + len(keys):
            return 'NumSysLinTanh.f returned %d equations, expected %d' % (len(vals), es.nr + len(keys))
        scale = 1.0 + 10 * sum(abs(v) for v in conc) + 10 * sum(abs(v) for v in p[:es.ns])
        if any(not v <= 1e-9 * scale for v in vals):
            return 'NumSysLinTanh.f is %r at the pre-image of a planted equilibrium' % max(vals)
        return None

    def known_key(self, c, failure):
        if c.get('op') == 'lintanh' and 'NumSysLinTanh.f raises TypeError' in str(failure):
            return 'lintanh-typeerror'
        return None

    def shrink(self, case, still_fails):
        """drop reactions (with their constant) and then unused species while the oracle still fails"""
        if case.get('op') != 'f' or case.get('kind') == 'precip':
            return case

        import re

        def sig(msg):
            return re.sub(r'[-+0-9/.e]+', '#', str(msg))[:48]
        want = sig(self.oracle(case))

        def fails(d):
            # same kind of failure, never a degenerate system without reactions
            try:
                return len(d['sys']['rxns']) >= 1 and bool(still_fails(d)) and sig(self.oracle(d)) == want
            except Exception:
                return False
        c = json.loads(json.dumps(case))
        changed = True
        while changed:
            changed = False
            ns, nr = len(c['sys']['species']), len(c['sys']['rxns'])
            for i in range(nr):
                d = json.loads(json.dumps(c))
                del d['sys']['rxns'][i]
                del d['params'][ns + i]
                if fails(d):
                    c, changed = d, True
                    break
            if changed:
                continue
            used = {k for r in c['sys']['rxns'] for part in r.values() for k, _ in part}
            for j, sp in enumerate(c['sys']['species']):
                if sp['name'] not in used and ns > 1:
                    d = json.loads(json.dumps(c))
                    del d['sys']['species'][j]
                    del d['y'][j]
                    del d['params'][j]
                    if fails(d):
                        c, changed = d, True
                        break
        return c

    def classify(self, c):
        if c['op'] == 'f':
            return 'f:%s:%s:%s%s%s' % (c['form'], c['kind'], c['sys_kind'], ':dup' if has_repeated_species(c['sys']) else '',
                                       ':own-' + c['own'] if c.get('own') else '')
        if c['op'] == 'history':
            return 'history:%d-adds:%d-evals' % (sum(1 for t in c['steps'] if t['do'] == 'add'), sum(1 for t in c['steps'] if t['do'] == 'eval'))
        if c['op'] == 'rref':
            return 'rref:%s:%s:eq%d:pr%d' % (c['form'], c['kind'], c['rref_equil'], c['rref_preserv'])
        return '%s:%s' % (c['op'], c.get('sys_kind'))

    def nontrivial(self, c):
        return len(c['sys']['rxns']) > 0


PROPERTY = C07()
