"""C11 — arithmetic on equilibria keeps the constant consistent with the stoichiometry"""
from fractions import Fraction
from collections import OrderedDict
import types
from lib.framework import Property
from .util import *

NAMES = ['A', 'B', 'C', 'D', 'E', 'a', 'A2', 'AB', 'H+', 'OH-', 'H2O', 'e-', 'Cd+2', 'Cd(OH)2(s)', 'Z', 'Fe+3', 'NH3', 'α']
PRIMES = [2, 3, 5, 7, 11, 13, 17, 19, 23, 29, 31, 37]
EXC = ('ValueError', 'ZeroDivisionError', 'TypeError', 'IndexError')


# ------------------------------------------------------------------ generators
def _coef(rng):
    r = rng.random()
    if r < 0.45:
        return 1
    if r < 0.9:
        return rng.randint(2, 4)
    return rng.randint(5, 12)


def _rat(rng, kmode):
    if kmode == 'sym':
        return rng.choice(PRIMES)
    if kmode == 'none':
        return None
    r = rng.random()
    if r < 0.04 and kmode == 'frac':
        return 0
    num = rng.choice([1, 1, 2, 3, 5, 7, 10, 12, 1000, 10 ** 14])
    den = rng.choice([1, 1, 2, 3, 4, 7, 9, 10 ** 5])
    q = Fraction(num, den)
    if rng.random() < 0.15:
        q = -q
    return rat_json(q)


def gen_eq(rng, pool, kmode, inact=False, plain=True, p_both=0.2, p_zero=0.0):
    """a random equilibrium as the JSON object understood by the driver"""
    for _ in range(20):
        nr, np_ = rng.randint(0 if rng.random() < 0.1 else 1, 3), rng.randint(0 if rng.random() < 0.1 else 1, 3)
        rk = rng.sample(pool, min(nr, len(pool)))
        rest = [k for k in pool if k not in rk]
        pk = []
        for _i in range(np_):
            if rk and rng.random() < p_both:
                k = rng.choice(rk)
            elif rest:
                k = rng.choice(rest)
            else:
                continue
            if k not in pk:
                pk.append(k)
        reac = [[k, 0 if rng.random() < p_zero else _coef(rng)] for k in rk]
        prod = [[k, 0 if rng.random() < p_zero else _coef(rng)] for k in pk]
        ireac, iprod = [], []
        if inact:
            for k in rng.sample(pool, rng.randint(0, 2)):
                (ireac if rng.random() < 0.5 else iprod).append([k, _coef(rng)])
        e = {'reac': reac, 'prod': prod, 'ireac': ireac, 'iprod': iprod, 'K': _rat(rng, kmode),
             'dict': True if plain else rng.random() < 0.6}
        if _has_effect(e) or rng.random() < 0.03:
            return e
    return e


def _has_effect(e):
    return any(v != 0 for v in _net(e).values())


def _net(e, active_only=False):
    d = {}
    for k, v in e['prod']:
        d[k] = d.get(k, 0) + v
    for k, v in e['reac']:
        d[k] = d.get(k, 0) - v
    if not active_only:
        for k, v in e['iprod']:
            d[k] = d.get(k, 0) + v
        for k, v in e['ireac']:
            d[k] = d.get(k, 0) - v
    return d


def gen_tree(rng, depth, leaf):
    r = rng.random()
    if depth <= 0 or r < 0.18:
        return {'t': 'leaf', 'eq': leaf()}
    if r < 0.42:
        n = rng.choice([-4, -3, -2, -2, -1, -1, 1, 2, 2, 3, 4, 5]) if rng.random() > 0.03 else 0
        return {'t': 'scale', 'n': n, 'right': rng.random() < 0.3, 'sint': rng.random() < 0.2,
                'x': gen_tree(rng, depth - 1, leaf)}
    if r < 0.5:
        return {'t': 'neg', 'x': gen_tree(rng, depth - 1, leaf)}
    return {'t': 'add' if r < 0.77 else 'sub', 'a': gen_tree(rng, depth - 1, leaf), 'b': gen_tree(rng, depth - 1, leaf)}


def tree_depth(t):
    if t['t'] == 'leaf':
        return 0
    if t['t'] in ('scale', 'neg'):
        return 1 + tree_depth(t['x'])
    return 1 + max(tree_depth(t['a']), tree_depth(t['b']))


def tree_leaves(t):
    if t['t'] == 'leaf':
        return [t['eq']]
    if t['t'] in ('scale', 'neg'):
        return tree_leaves(t['x'])
    return tree_leaves(t['a']) + tree_leaves(t['b'])


def elim_eq(coef, other, K, extra=None):
    """equilibrium with net coefficient `coef` of X (other species `other` on the opposite side)"""
    reac, prod = [], []
    (prod if coef > 0 else reac).append(['X', abs(coef)])
    (reac if coef > 0 else prod).append([other, 1])
    if extra:
        prod.append(extra)
    return {'reac': reac, 'prod': prod, 'ireac': [], 'iprod': [], 'K': K, 'dict': True}


# ------------------------------------------------------------------ real objects
def _K(v, kmode):
    import sympy
    if v is None:
        return None
    q = Fraction(*v) if isinstance(v, list) else Fraction(v)
    if kmode == 'sym':
        return sympy.Symbol('K%d' % q)
    if kmode == 'srat':
        return sympy.Rational(q.numerator, q.denominator)
    return q


def build_eq(e, kmode='frac', **kw):
    from chempy import Equilibrium
    cont = dict if e['dict'] else OrderedDict
    mk = lambda l: cont((k, int(v)) for k, v in l)
    return Equilibrium(mk(e['reac']), mk(e['prod']), _K(e['K'], kmode),
                       inact_reac=mk(e['ireac']), inact_prod=mk(e['iprod']), **kw)


def eval_tree(t, kmode):
    import sympy
    k = t['t']
    if k == 'leaf':
        return build_eq(t['eq'], kmode)
    if k == 'scale':
        x = eval_tree(t['x'], kmode)
        n = sympy.Integer(t['n']) if t.get('sint') else int(t['n'])
        return x * n if t.get('right') else n * x
    if k == 'neg':
        return -eval_tree(t['x'], kmode)
    a = eval_tree(t['a'], kmode)
    b = eval_tree(t['b'], kmode)
    return a + b if k == 'add' else a - b


def canon_K(p):
    """param of a result -> Fraction | None | str (not a rational number)"""
    import sympy
    if p is None:
        return None
    if isinstance(p, (int, Fraction)):
        return Fraction(p)
    if isinstance(p, float):
        return p
    if isinstance(p, sympy.Basic):
        syms = sorted(p.free_symbols, key=str)
        if syms:
            p = p.subs({s: sympy.Rational(int(str(s)[1:])) for s in syms})
        if p.is_Rational:
            return Fraction(int(p.p), int(p.q))
        if p.is_Float:
            return float(p)
        return 'sympy:%s' % p
    return 'other:%r' % (p,)


def show_K(p):
    c = canon_K(p)
    if isinstance(c, float):
        return 'float:%r' % c
    return 'None' if c is None else (show_rat(c) if isinstance(c, Fraction) else c)


def show_stoich(d):
    return ','.join('%s:%d' % (k, int(v)) for k, v in d.items())


def show_equil(e):
    return '|'.join([show_stoich(e.reac), show_stoich(e.prod), show_stoich(e.inact_reac), show_stoich(e.inact_prod), show_K(e.param)])


# ------------------------------------------------------------------ independent evaluation (oracle)
class _Pred(Exception):
    pass


def own_eval(t, kmode):
    """(net vector, K as Fraction | exponent dict | None, netted?, positive?) with own integer/Fraction arithmetic;
    raises _Pred(class name) where the real code is entitled to raise"""
    k = t['t']
    if k == 'leaf':
        e = t['eq']
        vec = {s: v for s, v in _net(e).items() if v != 0}
        if not vec:
            raise _Pred('ValueError')
        K = e['K']
        if K is not None:
            q = Fraction(*K) if isinstance(K, list) else Fraction(K)
            K = {int(q): 1} if kmode == 'sym' else q
        rk, pk = [x for x, _ in e['reac']], [x for x, _ in e['prod']]
        netted = not (set(rk) & set(pk)) and all(v > 0 for _, v in e['reac'] + e['prod']) and not (e['ireac'] or e['iprod'])
        positive = all(v > 0 for _, v in e['reac'] + e['prod'])
        return vec, K, netted, positive
    if k in ('scale', 'neg'):
        n = -1 if k == 'neg' else int(t['n'])
        vec, K, netted, positive = own_eval(t['x'], kmode)
        if K is not None:
            if isinstance(K, dict):
                K = {s: c * n for s, c in K.items() if c * n != 0}
            else:
                if K == 0 and n < 0:
                    raise _Pred('ZeroDivisionError')
                K = K ** n
        vec = {s: v * n for s, v in vec.items() if v * n != 0}
        if not vec:
            raise _Pred('ValueError')
        return vec, K, netted, positive
    va, Ka, _, _ = own_eval(t['a'], kmode)
    if k == 'sub':
        vb, Kb, _, _ = own_eval({'t': 'neg', 'x': t['b']}, kmode)
    else:
        vb, Kb, _, _ = own_eval(t['b'], kmode)
    if (Ka is None) != (Kb is None):
        raise _Pred('TypeError')
    if Ka is None:
        K = None
    elif isinstance(Ka, dict):
        K = {s: Ka.get(s, 0) + Kb.get(s, 0) for s in set(Ka) | set(Kb)}
        K = {s: c for s, c in K.items() if c != 0}
    else:
        K = Ka * Kb
    vec = {s: va.get(s, 0) + vb.get(s, 0) for s in set(va) | set(vb)}
    vec = {s: v for s, v in vec.items() if v != 0}
    if not vec:
        raise _Pred('ValueError')
    return vec, K, True, True


def check_result(r, vec, K, netted, positive, kmode, what):
    """the property on a returned Equilibrium"""
    species = sorted(set(vec) | set(r.keys()) | {'__absent__'})
    got = dict(zip(species, r.net_stoich(species)))
    for s in species:
        if got[s] != vec.get(s, 0):
            return '%s: net coefficient of %s is %r, the integer combination of the operands gives %r' % (what, s, got[s], vec.get(s, 0))
    if positive:
        for nm in ('reac', 'prod'):
            for s, v in getattr(r, nm).items():
                if not v > 0:
                    return '%s: listed coefficient of %s in %s is %r (not positive)' % (what, s, nm, v)
    if netted:
        both = set(r.reac) & set(r.prod)
        if both:
            return '%s: not netted, %s on both sides' % (what, sorted(both))
        for s in list(r.reac) + list(r.prod):
            if vec.get(s, 0) == 0:
                return '%s: cancelled species %s still listed' % (what, s)
    if K is None:
        if r.param is not None:
            return '%s: param is %r, expected None' % (what, r.param)
    else:
        if isinstance(K, dict):
            want = Fraction(1)
            for p, c in K.items():
                want *= Fraction(p) ** c
            # second evaluation point: the symbolic result must be the monomial, not merely agree at one point
            import sympy
            if isinstance(r.param, sympy.Basic):
                alt = {s: sympy.Rational(int(str(s)[1:]) + 100) for s in r.param.free_symbols}
                v2 = r.param.subs(alt)
                w2 = Fraction(1)
                for p, c in K.items():
                    w2 *= Fraction(p + 100) ** c
                if not (v2.is_Rational and Fraction(int(v2.p), int(v2.q)) == w2):
                    return '%s: symbolic constant %s is not prod K_i^n_i with exponents %r' % (what, r.param, K)
        else:
            want = K
        got = canon_K(r.param)
        if got != want:
            return '%s: constant is %s, product of the operands\' constants raised to the multipliers is %s' % (what, got, want)
    return None


# ------------------------------------------------------------------ the property
class C11(Property):
    pid = 'C11'
    title = ('scale/add/sub of equilibria: net stoichiometry = the integer combination, listed coefficients positive, sums netted, '
             'K = prod K_i^n_i; eliminate gives non-zero integer multipliers removing the species')
    props_module = 'ChemModel.Props.C11'
    build_modules = ('ChemModel.Model.Equilibria', 'ChemModel.Basic.Proto')
    driver = 'ChemModel/Driver/C11.lean'
    n_quick, n_thorough = 3000, 60000
    float_tol = 1e-12
    rule = ('random expression trees (scale by -4..5 incl. 0, negate, add, subtract; int and sympy.Integer multipliers; n*e and e*n) over random '
            'equilibria on a pool of 3-6 species (shared species on opposite sides, species on both sides of one operand, coefficient 1, '
            'zero coefficients, inactive parts, dict and unsorted OrderedDict containers) with K as fractions.Fraction (incl. 0 and negative), '
            'sympy.Rational, sympy symbols (compared at prime values, unique factorisation) or None; eliminate on every coefficient pair of '
            '(-12..12)^2 without zeros plus zeros, triples, large coefficients; primefactors 0..210; intdiv on (-20..20)^2; cancel; as_reactions with '
            'kf/kb/both/none and c0 = 1 or a Fraction. A case counts as non-trivial when it is a distinct JSON value.')
    assumptions = ('equilibrium constants are exact rationals (fractions.Fraction / sympy.Rational) or sympy symbols; Python ints as K give floats under negative powers and are outside the model',
                   'sympy.Rational(0) ** negative is zoo (no exception) and is not generated; Fraction(0) ** negative raises ZeroDivisionError and is modelled',
                   'sympy.primefactors is modelled by its result (primes dividing |n|), tied by the primefactors correspondence op',
                   'cancel iterates over a Python set; its order is passed to the model (ties in |r| make the sign order dependent)',
                   'as_reactions without units computes 1 ** (nb - nf), a float for nb < nf: those rate constants are compared to 1e-12 relative',
                   'non-integer multipliers (float.is_integer is a bound method, hence truthy) are outside the property and the model')
    anchors = (('chempy/chemistry.py', 'Equilibrium.__rmul__'), ('chempy/chemistry.py', 'Equilibrium.__neg__'),
               ('chempy/chemistry.py', 'Equilibrium.__mul__'), ('chempy/chemistry.py', 'Equilibrium.__add__'),
               ('chempy/chemistry.py', 'Equilibrium.__sub__'), ('chempy/chemistry.py', 'Equilibrium.eliminate'),
               ('chempy/chemistry.py', 'Equilibrium.cancel'), ('chempy/chemistry.py', 'Equilibrium.as_reactions'),
               ('chempy/chemistry.py', 'Reaction._init_stoich'), ('chempy/chemistry.py', 'Reaction.__init__'),
               ('chempy/chemistry.py', 'Reaction.net_stoich'), ('chempy/chemistry.py', 'Reaction.keys'),
               ('chempy/chemistry.py', 'Reaction.check_any_effect'), ('chempy/chemistry.py', 'Reaction.check_all_positive'),
               ('chempy/util/arithmeticdict.py', '_imul'), ('chempy/util/arithmeticdict.py', 'ArithmeticDict.__mul__'),
               ('chempy/util/arithmeticdict.py', 'ArithmeticDict.__rmul__'), ('chempy/_util.py', 'intdiv'))

    # ---------------------------------------------------------------- generation
    def generate(self, rng, n, tier):
        cases = []
        # eliminate: every pair of non-zero coefficients in (-12..12)^2
        for a in range(-12, 13):
            for b in range(-12, 13):
                if a and b:
                    cases.append({'op': 'eliminate', 'wrt': 'X', 'kmode': 'frac',
                                  'eqs': [elim_eq(a, 'P', rat_json(Fraction(3, 2))), elim_eq(b, 'Q', rat_json(Fraction(5, 7)), ['R', 2])]})
        for z in ((0, 3), (3, 0), (0, 0)):
            cases.append({'op': 'eliminate', 'wrt': 'X', 'kmode': 'frac',
                          'eqs': [elim_eq(z[0] or 1, 'P', 2) if z[0] else elim_eq(1, 'P', 2) | {'prod': [['W', 1]]},
                                  elim_eq(z[1], 'Q', 3) if z[1] else elim_eq(1, 'Q', 3) | {'prod': [['W', 1]]}]})
        cases.append({'op': 'eliminate', 'wrt': 'X', 'kmode': 'frac', 'eqs': []})
        for m in range(0, 211):
            cases.append({'op': 'primefactors', 'n': m, 'negate': m % 2 == 1})
        step = 1 if tier == 'thorough' else 3
        for p in range(-20, 21, 1):
            for q in sorted(set(range(-20, 21, step)) | {0, -1, 1}):
                cases.append({'op': 'intdiv', 'p': p, 'q': q})
        k = max(0, n - 600)
        depth = 3 if tier == 'quick' else 5
        for i in range(k):
            r = rng.random()
            pool = rng.sample(NAMES, rng.randint(3, 6))
            kmode = rng.choice(['frac', 'frac', 'frac', 'srat', 'sym', 'sym', 'none'])
            if r < 0.5:
                mixed_none = rng.random() < 0.04
                weird = rng.random() < 0.12      # inactive parts / zero coefficients / OrderedDict order

                def leaf():
                    km = 'none' if (mixed_none and rng.random() < 0.3 and kmode == 'frac') else kmode
                    if weird:
                        return gen_eq(rng, pool, km, inact=rng.random() < 0.5, plain=False, p_zero=0.1)
                    return gen_eq(rng, pool, km)
                t = gen_tree(rng, rng.randint(1, depth), leaf)
                cases.append({'op': 'expr', 'kmode': kmode, 'tree': t})
            elif r < 0.58:
                e = gen_eq(rng, pool, kmode, inact=rng.random() < 0.5, plain=False, p_zero=0.1)
                cases.append({'op': 'rmul', 'kmode': kmode, 'eq': e, 'n': rng.randint(-5, 5)})
            elif r < 0.68:
                a = gen_eq(rng, pool, kmode, inact=rng.random() < 0.3, plain=rng.random() < 0.5, p_zero=0.05)
                if rng.random() < 0.1:       # complete cancellation
                    b = dict(a, reac=a['prod'], prod=a['reac']) if rng.random() < 0.5 else a
                else:
                    b = gen_eq(rng, pool, kmode if rng.random() < 0.95 else 'none', inact=rng.random() < 0.3)
                cases.append({'op': rng.choice(['add', 'sub']), 'kmode': kmode, 'a': a, 'b': b})
            elif r < 0.74:
                cases.append(self._mk_case(rng, pool, kmode))
            elif r < 0.84:
                m = rng.choice([2, 2, 2, 3])
                big = rng.random() < 0.3
                eqs = []
                for j in range(m):
                    e = gen_eq(rng, pool, 'frac', inact=rng.random() < 0.1, p_both=0.3)
                    if big:
                        for side in ('reac', 'prod'):
                            for kv in e[side]:
                                if rng.random() < 0.5:
                                    kv[1] = rng.randint(1, 60)
                    eqs.append(e)
                cases.append({'op': 'eliminate', 'wrt': rng.choice(pool), 'kmode': 'frac', 'eqs': eqs})
            elif r < 0.92:
                a = gen_eq(rng, pool, 'frac', inact=rng.random() < 0.2, p_both=0.25)
                b = gen_eq(rng, pool, 'frac', inact=rng.random() < 0.2, p_both=0.25)
                if rng.random() < 0.5:
                    for kv in a['reac'] + a['prod']:
                        kv[1] *= rng.randint(1, 5)
                cases.append({'op': 'cancel', 'kmode': 'frac', 'a': a, 'b': b})
            else:
                km = rng.choice(['frac', 'frac', 'srat', 'none'])
                e = gen_eq(rng, pool, km, inact=rng.random() < 0.3, plain=False)
                which = rng.random()
                kf = _rat(rng, 'frac') if which < 0.45 or which > 0.95 else None
                kb = _rat(rng, 'frac') if 0.45 <= which < 0.9 or which > 0.95 else None
                c0 = None if rng.random() < 0.4 else rat_json(Fraction(rng.randint(1, 9), rng.randint(1, 9)) * (0 if (rng.random() < 0.03 and km == 'frac') else 1))
                cases.append({'op': 'as_reactions', 'kmode': km, 'eq': e, 'kf': kf, 'kb': kb, 'units_c0': c0})
        return cases

    def _mk_case(self, rng, pool, kmode):
        e = gen_eq(rng, pool, kmode, inact=rng.random() < 0.4, plain=False, p_zero=0.15)
        m = rng.random()
        if m < 0.25 and e['reac']:
            e['reac'][0][1] = -rng.randint(1, 3)
        elif m < 0.35 and e['iprod']:
            e['iprod'][0][1] = -1
        elif m < 0.5:
            e['prod'] = [list(kv) for kv in e['reac']]            # no effect
        elif m < 0.55:
            e['reac'], e['prod'] = [], []
        return {'op': 'mk', 'kmode': kmode, 'eq': e}

    # ---------------------------------------------------------------- model side
    def model_case(self, c):
        op = c['op']
        if op == 'cancel':
            try:
                ks = list(build_eq(c['b']).keys())     # iteration order of the real set in this process
            except Exception:
                ks = []
            return dict(c, keys=ks)
        if op == 'as_reactions':
            return dict(c, c0=1 if c['units_c0'] is None else c['units_c0'])
        return c

    # ---------------------------------------------------------------- real code
    def impl(self, c):
        from chempy import Equilibrium
        import sympy
        op = c['op']
        km = c.get('kmode', 'frac')
        try:
            if op == 'mk':
                return show_equil(build_eq(c['eq'], km))
            if op == 'rmul':
                return show_equil(int(c['n']) * build_eq(c['eq'], km))
            if op == 'neg':
                return show_equil(-build_eq(c['eq'], km))
            if op == 'add':
                return show_equil(build_eq(c['a'], km) + build_eq(c['b'], km))
            if op == 'sub':
                return show_equil(build_eq(c['a'], km) - build_eq(c['b'], km))
            if op == 'expr':
                return show_equil(eval_tree(c['tree'], km))
            if op == 'eliminate':
                res = Equilibrium.eliminate([build_eq(e, km) for e in c['eqs']], c['wrt'])
                assert all(int(x) == x for x in res)
                return show_int_list(res)
            if op == 'primefactors':
                return show_int_list(sympy.primefactors(-c['n'] if c.get('negate') else c['n']))
            if op == 'intdiv':
                from chempy._util import intdiv
                return str(intdiv(c['p'], c['q']))
            if op == 'cancel':
                a, b = build_eq(c['a'], km), build_eq(c['b'], km)
                if list(b.keys()) != c['keys']:
                    return '!set-order-changed'
                r = a.cancel(b)
                return 'inf' if r == float('inf') else str(int(r))
            if op == 'as_reactions':
                e = build_eq(c['eq'], km)
                units = None if c['units_c0'] is None else types.SimpleNamespace(molar=_K(c['units_c0'], 'frac'))
                f, b = e.as_reactions(kf=_K(c['kf'], 'frac'), kb=_K(c['kb'], 'frac'), units=units)
                return ';'.join('|'.join([show_stoich(r.reac), show_stoich(r.prod), show_stoich(r.inact_reac), show_stoich(r.inact_prod),
                                          show_K(r.param)]) for r in (f, b))
        except Exception as ex:
            return exc_name(ex)
        return '!unknown-op'

    def same(self, c, io, mo):
        if io == mo:
            return True
        if c['op'] == 'as_reactions' and 'float:' in io and mo not in EXC:
            # 1 ** negative int is a float in Python: the rate constant went through float arithmetic
            a, b = io.split(';'), mo.split(';')
            if len(a) != len(b):
                return False
            for x, y in zip(a, b):
                xs, ys = x.split('|'), y.split('|')
                if xs[:-1] != ys[:-1]:
                    return False
                if xs[-1].startswith('float:'):
                    if not close(float(xs[-1][6:]), Fraction(ys[-1]), self.float_tol):
                        return False
                elif xs[-1] != ys[-1]:
                    return False
            return True
        return False

    # ---------------------------------------------------------------- property oracle (independent of the model)
    def oracle(self, c):
        from chempy import Equilibrium
        op = c['op']
        km = c.get('kmode', 'frac')
        if op in ('expr', 'rmul', 'add', 'sub', 'neg'):
            if op == 'expr':
                t = c['tree']
            elif op == 'rmul':
                t = {'t': 'scale', 'n': c['n'], 'x': {'t': 'leaf', 'eq': c['eq']}}
            elif op == 'neg':
                t = {'t': 'neg', 'x': {'t': 'leaf', 'eq': c['eq']}}
            else:
                t = {'t': op, 'a': {'t': 'leaf', 'eq': c['a']}, 'b': {'t': 'leaf', 'eq': c['b']}}
            leaves = tree_leaves(t)
            if any(v < 0 for e in leaves for side in ('reac', 'prod', 'ireac', 'iprod') for _, v in e[side]):
                return None
            has_sum = self._has_sum(t)
            if has_sum and any(e['ireac'] or e['iprod'] for e in leaves):
                return None            # inactive parts are not carried by addition: outside the property's quantifier
            try:
                want = own_eval(t, km)
            except _Pred as p:
                want = p
            try:
                r = eval_tree(t, km)
            except (ValueError, ZeroDivisionError, TypeError) as ex:
                if isinstance(want, _Pred):
                    return None
                # another node may be entitled to raise although the first one found here was fine: search all nodes
                if self._any_pred(t, km, exc_name(ex)):
                    return None
                return 'raised %s: %s although every intermediate result is a proper equilibrium' % (exc_name(ex), str(ex)[:80])
            if isinstance(want, _Pred):
                return None            # the code returned something where it was entitled to raise: nothing to compare
            vec, K, netted, positive = want
            if km == 'srat' and isinstance(K, Fraction):
                pass
            return check_result(r, vec, K, netted, positive, km, 'expression')
        if op == 'eliminate':
            eqs = c['eqs']
            if len(eqs) != 2 or any(e['ireac'] or e['iprod'] for e in eqs):
                return None
            v = [_net(e).get(c['wrt'], 0) for e in eqs]
            if 0 in v:
                return None
            try:
                objs = [build_eq(e, km) for e in eqs]
            except ValueError:
                return None
            try:
                m = Equilibrium.eliminate(objs, c['wrt'])
            except Exception as ex:
                return 'eliminate raised %s for coefficients %r' % (exc_name(ex), v)
            if len(m) != 2 or any(int(x) != x for x in m) or any(x == 0 for x in m):
                return 'eliminate returned %r for coefficients %r: not two non-zero integers' % (m, v)
            if int(m[0]) * v[0] + int(m[1]) * v[1] != 0:
                return 'eliminate returned %r for coefficients %r: %d*%d + %d*%d != 0' % (m, v, m[0], v[0], m[1], v[1])
            if max(abs(int(x)) for x in m) > 40:      # the common multiple is not the least one: K ** m can be astronomically large
                objs = [build_eq(dict(e, K=None), km) for e in eqs]
            try:
                r = m[0] * objs[0] + m[1] * objs[1]
            except ValueError:
                return None if all(int(m[0]) * _net(eqs[0]).get(s, 0) + int(m[1]) * _net(eqs[1]).get(s, 0) == 0
                                   for s in set(_net(eqs[0])) | set(_net(eqs[1]))) else 'combination raised ValueError'
            except ZeroDivisionError:
                return None
            if c['wrt'] in r.keys() or r.net_stoich([c['wrt']])[0] != 0:
                return 'combination %r of the two equilibria still contains %s' % (m, c['wrt'])
            return None
        if op == 'intdiv':
            from chempy._util import intdiv
            p, q = c['p'], c['q']
            if q == 0:
                return None
            want = abs(p) // abs(q) * (1 if (p >= 0) == (q > 0) else -1)
            got = intdiv(p, q)
            if got != want:
                return 'intdiv(%d, %d) = %r, truncation toward zero gives %d' % (p, q, got, want)
            return None
        if op == 'as_reactions':
            if (c['kf'] is None) == (c['kb'] is None) or c['eq']['K'] is None:
                return None
            e = c['eq']
            if any(v < 0 for side in ('reac', 'prod', 'ireac', 'iprod') for _, v in e[side]) or not _has_effect(e):
                return None
            K = Fraction(*e['K']) if isinstance(e['K'], list) else Fraction(e['K'])
            c0 = Fraction(1) if c['units_c0'] is None else (Fraction(*c['units_c0']) if isinstance(c['units_c0'], list) else Fraction(c['units_c0']))
            d = sum(v for _, v in e['prod']) - sum(v for _, v in e['reac'])
            if c0 == 0 or K == 0:
                return None
            units = None if c['units_c0'] is None else types.SimpleNamespace(molar=c0)
            obj = build_eq(e, km)
            f, b = obj.as_reactions(kf=_K(c['kf'], 'frac'), kb=_K(c['kb'], 'frac'), units=units)
            if dict(f.reac) != dict(obj.reac) or dict(f.prod) != dict(obj.prod) or dict(b.reac) != dict(obj.prod) or dict(b.prod) != dict(obj.reac):
                return 'as_reactions: forward/backward stoichiometries are not the two directions of the equilibrium'
            kf, kb = f.param, b.param
            want = K * c0 ** d
            lhs = canon_K(kf)
            rhs = canon_K(kb)
            if isinstance(lhs, str) or isinstance(rhs, str):
                return 'as_reactions: rate constants %r, %r are not numbers' % (kf, kb)
            if isinstance(lhs, float) or isinstance(rhs, float):
                if not close(float(lhs), float(Fraction(rhs) * want), 1e-12):
                    return 'as_reactions: kf = %r, kb*K*c0^(nb-nf) = %r' % (lhs, float(rhs * want))
            elif lhs != rhs * want:
                return 'as_reactions: kf = %s but kb*K*c0^(nb-nf) = %s' % (lhs, rhs * want)
            return None
        return None

    def _has_sum(self, t):
        if t['t'] == 'leaf':
            return False
        if t['t'] in ('scale', 'neg'):
            return self._has_sum(t['x'])
        return True

    def _any_pred(self, t, km, name):
        """does any subtree entitle the real code to raise `name`?"""
        try:
            own_eval(t, km)
        except _Pred as p:
            if str(p) == name:
                return True
        if t['t'] == 'leaf':
            return False
        if t['t'] in ('scale', 'neg'):
            return self._any_pred(t['x'], km, name)
        return self._any_pred(t['a'], km, name) or self._any_pred(t['b'], km, name)

    def classify(self, c):
        op = c['op']
        if op == 'expr':
            return 'expr:depth%d:%s' % (tree_depth(c['tree']), c['kmode'])
        if op == 'eliminate':
            return 'eliminate:%d' % len(c['eqs'])
        if op in ('rmul',):
            return 'rmul:%s' % ('neg' if c['n'] < 0 else 'zero' if c['n'] == 0 else 'pos')
        if op == 'as_reactions':
            return 'as_reactions:%s%s' % ('kf' if c['kf'] is not None else '', 'kb' if c['kb'] is not None else '')
        return op

    def shrink(self, case, still_fails):
        if case.get('op') != 'expr':
            return case
        cur = case
        changed = True
        while changed:
            changed = False
            t = cur['tree']
            subs = []
            if t['t'] in ('scale', 'neg'):
                subs = [t['x']]
            elif t['t'] in ('add', 'sub'):
                subs = [t['a'], t['b']]
            for s in subs:
                cand = dict(cur, tree=s)
                try:
                    if still_fails(cand):
                        cur, changed = cand, True
                        break
                except Exception:
                    pass
        return cur


PROPERTY = C11()
