"""C11 — arithmetic on equilibria keeps the constant consistent with the stoichiometry"""
from fractions import Fraction
from collections import OrderedDict
import types
from lib.framework import Property
from .util import *

NAMES = ['A', 'B', 'C', 'D', 'E', 'a', 'A2', 'AB', 'H+', 'OH-', 'H2O', 'e-', 'Cd+2', 'Cd(OH)2(s)', 'Z', 'Fe+3', 'NH3', 'α']
PRIMES = [2, 3, 5, 7, 11, 13, 17, 19, 23, 29, 31, 37]
EXC = ('ValueError', 'ZeroDivisionError', 'TypeError', 'IndexError')


# ------------------------------------------------------------------ generators
def _coef(rng):
    r = rng.random()
    if r < 0.45:
        return 1
    if r < 0.9:
        return rng.randint(2, 4)
    return rng.randint(5, 12)


KMODES = ['frac', 'frac', 'srat', 'sym', 'sym', 'none', 'int', 'int', 'float', 'sint', 'mixed', 'mixed']
NUMERIC_LEAF_MODES = ['int', 'frac', 'srat', 'sint', 'float']
SMALL = ('int', 'float', 'sint', 'mixed')       # small magnitudes: results stay inside the double range


# container types for every argument that is a collection: the result must not depend on the type (re-iterable or one-shot)
CONTAINERS = ['list', 'tuple', 'gen', 'iter', 'filter', 'map', 'dictvalues', 'nparray', 'deque', 'reversed', 'zipgen']
# kinds of integer multipliers
MULT_KINDS = ['int', 'int', 'int', 'sint', 'np64', 'np8', 'np32', 'frac']


def as_container(kind, items):
    """the list `items` as a collection of the given type (one-shot iterators included)"""
    import collections
    items = list(items)
    if kind == 'list':
        return items
    if kind == 'tuple':
        return tuple(items)
    if kind == 'gen':
        return (x for x in items)
    if kind == 'iter':
        return iter(items)
    if kind == 'filter':
        return filter(lambda x: True, items)
    if kind == 'map':
        return map(lambda x: x, items)
    if kind == 'dictvalues':
        return {i: x for i, x in enumerate(items)}.values()
    if kind == 'nparray':
        import numpy as np
        a = np.empty(len(items), dtype=object)
        for i, x in enumerate(items):
            a[i] = x
        return a
    if kind == 'deque':
        return collections.deque(items)
    if kind == 'reversed':
        return reversed(items[::-1])
    if kind == 'zipgen':
        return (x for x, _ in zip(items, items))
    raise ValueError(kind)


# multipliers the real code must refuse (NotImplemented -> TypeError): no `is_integer`, or a falsy one
BAD_MULT = ['str', 'none', 'complex', 'decimal', 'list', 'dict', 'tuple', 'bytes', 'srat_half', 'sfloat', 'ssym',
            'flt_half', 'flt_neg_half', 'frac_half', 'frac_third', 'npflt_half', 'npflt32_half']


def bad_multiplier(kind):
    import sympy
    from decimal import Decimal
    import numpy as np
    return {'flt_half': 2.5, 'flt_neg_half': -1.5, 'frac_half': Fraction(5, 2), 'frac_third': Fraction(-7, 3),
            'npflt_half': np.float64(2.5), 'npflt32_half': np.float32(-0.5),
            'str': '2', 'none': None, 'complex': 2j, 'decimal': Decimal('2'), 'list': [2], 'dict': {'A': 2}, 'tuple': (2,), 'bytes': b'2',
            'srat_half': sympy.Rational(5, 2), 'sfloat': sympy.Float(2.5), 'ssym': sympy.Symbol('n')}[kind]


class UnitFraction(Fraction):
    """an exact number that carries a `units` attribute (all `as_reactions` looks at when `units` is None)"""
    units = 'per_second'


def with_units(k, how):
    if k is None or not how:
        return k
    if how == 'quantity':
        from chempy.units import default_units as u
        return float(k) / u.second
    return UnitFraction(k)


def describe_multiplier(m):
    """{'attr': missing | method | value, 'ret': what the method returns / the attribute's value, 'pyint': isinstance(m, int), 'val': numeric value}"""
    from decimal import Decimal
    import sympy
    try:
        a = m.is_integer
    except AttributeError:
        attr, ret = 'missing', None
    else:
        if callable(a):
            attr, ret = 'method', bool(a())
        else:
            attr, ret = 'value', (None if a is None else bool(a))
    try:
        if isinstance(m, sympy.Basic):
            val = Fraction(int(m.p), int(m.q)) if m.is_Rational else (Fraction(float(m)) if m.is_Float else Fraction(0))
        elif isinstance(m, (bool, int, float, Fraction, Decimal)) or type(m).__module__ == 'numpy':
            val = Fraction(m.item() if type(m).__module__ == 'numpy' else m)
        else:
            val = Fraction(0)
    except (TypeError, ValueError):
        val = Fraction(0)
    return {'attr': attr, 'ret': ret, 'pyint': isinstance(m, int), 'val': rat_json(val)}


def mult_kind(node):
    return node.get('nk') or ('sint' if node.get('sint') else 'int')


def as_multiplier(kind, n):
    """the integer n as a Python int / sympy.Integer / numpy integer / integral Fraction"""
    n = int(n)
    if kind == 'sint':
        import sympy
        return sympy.Integer(n)
    if kind in ('np64', 'np32', 'np8'):
        import numpy as np
        return {'np64': np.int64, 'np32': np.int32, 'np8': np.int8}[kind](n)
    if kind == 'frac':
        return Fraction(n, 1)
    if kind == 'flt':        # an integral float (float.is_integer is truthy): accepted, the constant goes through float arithmetic
        return float(n)
    if kind.startswith('bad:'):
        return bad_multiplier(kind[4:])
    return n


def _rat(rng, kmode):
    if kmode == 'sym':
        return rng.choice(PRIMES)
    if kmode == 'none':
        return None
    if kmode == 'float':        # exactly representable: powers of two (and their products stay exact)
        return rat_json(Fraction(2) ** rng.randint(-6, 6))
    if kmode in ('int', 'sint'):
        if kmode == 'int' and rng.random() < 0.03:
            return 0
        return rng.choice([1, 2, 2, 3, 4, 5, 7, 10, 12])
    r = rng.random()
    if r < 0.04 and kmode == 'frac':
        return 0
    num = rng.choice([1, 1, 2, 3, 5, 7, 10, 12, 1000, 10 ** 14])
    den = rng.choice([1, 1, 2, 3, 4, 7, 9, 10 ** 5])
    q = Fraction(num, den)
    if rng.random() < 0.15:
        q = -q
    return rat_json(q)


def gen_eq(rng, pool, kmode, inact=False, plain=True, p_both=0.2, p_zero=0.0):
    """a random equilibrium as the JSON object understood by the driver"""
    for _ in range(20):
        nr, np_ = rng.randint(0 if rng.random() < 0.1 else 1, 3), rng.randint(0 if rng.random() < 0.1 else 1, 3)
        rk = rng.sample(pool, min(nr, len(pool)))
        rest = [k for k in pool if k not in rk]
        pk = []
        for _i in range(np_):
            if rk and rng.random() < p_both:
                k = rng.choice(rk)
            elif rest:
                k = rng.choice(rest)
            else:
                continue
            if k not in pk:
                pk.append(k)
        reac = [[k, 0 if rng.random() < p_zero else _coef(rng)] for k in rk]
        prod = [[k, 0 if rng.random() < p_zero else _coef(rng)] for k in pk]
        ireac, iprod = [], []
        if inact:
            for k in rng.sample(pool, rng.randint(0, 2)):
                (ireac if rng.random() < 0.5 else iprod).append([k, _coef(rng)])
        e = {'reac': reac, 'prod': prod, 'ireac': ireac, 'iprod': iprod,
             'dict': True if plain else rng.random() < 0.6}
        if kmode == 'mixed':     # every operand draws its own kind of constant
            e['km'] = rng.choice(NUMERIC_LEAF_MODES)
            e['K'] = _rat(rng, e['km']) or 1      # no 0: sympy turns 0 ** negative into zoo instead of raising
            if e['km'] in ('frac', 'srat'):
                e['K'] = rat_json(Fraction(rng.randint(1, 9), rng.randint(1, 9)))
        else:
            e['K'] = _rat(rng, kmode)
        if rng.random() < 0.04:      # constructed with checks=() / dont_check: the operand may then lack a net effect
            if rng.random() < 0.6 and e['reac']:
                e['prod'] = [list(kv) for kv in e['reac']]
            if rng.random() < 0.5:
                e['checks'] = rng.choice([[], ['all_positive'], ['all_positive', 'all_integral', 'consistent_units']])
            else:
                e['dont_check'] = rng.choice([['any_effect'], ['any_effect', 'consistent_units']])
            return e
        if _has_effect(e) or rng.random() < 0.03:
            return e
    return e


def _unchecked(e):
    """built without the any_effect check (checks=() or dont_check={'any_effect'}): an operand without net effect exists"""
    if e.get('checks') is not None:
        return 'any_effect' not in e['checks']
    return 'any_effect' in (e.get('dont_check') or [])


def _has_effect(e):
    return any(v != 0 for v in _net(e).values())


def _net(e, active_only=False):
    d = {}
    for k, v in e['prod']:
        d[k] = d.get(k, 0) + v
    for k, v in e['reac']:
        d[k] = d.get(k, 0) - v
    if not active_only:
        for k, v in e['iprod']:
            d[k] = d.get(k, 0) + v
        for k, v in e['ireac']:
            d[k] = d.get(k, 0) - v
    return d


def gen_tree(rng, depth, leaf, small=False):
    r = rng.random()
    if depth <= 0 or r < 0.18:
        return {'t': 'leaf', 'eq': leaf()}
    if r < 0.42:
        n = rng.choice([-3, -2, -2, -1, -1, 1, 2, 2, 3] if small else [-4, -3, -2, -2, -1, -1, 1, 2, 2, 3, 4, 5]) if rng.random() > 0.03 else 0
        return {'t': 'scale', 'n': n, 'right': rng.random() < 0.3, 'nk': rng.choice(MULT_KINDS),
                'x': gen_tree(rng, depth - 1, leaf, small)}
    if r < 0.5:
        return {'t': 'neg', 'x': gen_tree(rng, depth - 1, leaf, small)}
    return {'t': 'add' if r < 0.77 else 'sub', 'a': gen_tree(rng, depth - 1, leaf, small), 'b': gen_tree(rng, depth - 1, leaf, small)}


def gen_history(rng, m, nsteps, small=False):
    """statements over a pool of m operand OBJECTS; every statement may use any operand and any earlier result again"""
    steps = []
    for k in range(nsteps):
        lim = m + k

        def ref():      # any earlier object; operands of the pool stay likely however long the history gets
            return rng.randrange(lim) if rng.random() < 0.6 else rng.randrange(m)
        r = rng.random()
        if r < 0.3:
            n = rng.choice([-2, -2, -1, -1, 1, 2] if small else [-4, -3, -2, -2, -1, -1, 1, 2, 3, 5]) if rng.random() > 0.03 else 0
            steps.append({'t': 'scale', 'n': n, 'i': ref(), 'right': rng.random() < 0.3, 'nk': rng.choice(MULT_KINDS)})
        elif r < 0.38:
            steps.append({'t': 'neg', 'i': ref()})
        else:
            steps.append({'t': 'add' if r < 0.7 else 'sub', 'i': ref(), 'j': ref()})
    return steps


def history_trees(pool_eqs, steps):
    """the expression tree every statement denotes (variables replaced by their definitions)"""
    trees = [{'t': 'leaf', 'eq': e} for e in pool_eqs]
    for st in steps:
        if st['t'] == 'scale':
            trees.append({'t': 'scale', 'n': st['n'], 'x': trees[st['i']]})
        elif st['t'] == 'neg':
            trees.append({'t': 'neg', 'x': trees[st['i']]})
        else:
            trees.append({'t': st['t'], 'a': trees[st['i']], 'b': trees[st['j']]})
    return trees


def run_history(pool_eqs, steps, kmode):
    """the real code on SHARED objects -> (outcome per statement: Equilibrium | exception instance,
    messages about earlier objects whose visible state changed)"""
    import sympy
    objs = [build_eq(e, kmode) for e in pool_eqs]
    snap = [show_equil(o) for o in objs]
    changed = []
    for k, st in enumerate(steps):
        try:
            ops = [objs[st['i']]] + ([objs[st['j']]] if 'j' in st else [])
            for o in ops:           # a variable whose defining statement raised: using it re-raises
                if isinstance(o, Exception):
                    raise o
            if st['t'] == 'scale':
                n = as_multiplier(mult_kind(st), st['n'])
                r = ops[0] * n if st.get('right') else n * ops[0]
            elif st['t'] == 'neg':
                r = -ops[0]
            elif st['t'] == 'add':
                r = ops[0] + ops[1]
            else:
                r = ops[0] - ops[1]
        except (ValueError, ZeroDivisionError, TypeError) as ex:
            r = ex
        objs.append(r)
        snap.append(None if isinstance(r, Exception) else show_equil(r))
        for idx in range(len(objs) - 1):
            if snap[idx] is not None and show_equil(objs[idx]) != snap[idx]:
                changed.append('statement %d changed object %d from %s to %s' % (k, idx, snap[idx], show_equil(objs[idx])))
                snap[idx] = show_equil(objs[idx])
    return objs[len(pool_eqs):], changed


def plain_multipliers(x):
    """sympy.Integer multipliers off (in place): a Python int 0 ** sympy.Integer(-1) is zoo, not ZeroDivisionError"""
    if isinstance(x, dict):
        if 'sint' in x:
            x['sint'] = False
        if 'nk' in x:
            x['nk'] = 'int'
        for v in x.values():
            plain_multipliers(v)
    elif isinstance(x, list):
        for v in x:
            plain_multipliers(v)
    return x


def has_zero_K(x):
    if isinstance(x, dict):
        return ('K' in x and x['K'] == 0 and 'reac' in x) or any(has_zero_K(v) for v in x.values())
    if isinstance(x, list):
        return any(has_zero_K(v) for v in x)
    return False


def tree_depth(t):
    if t['t'] == 'leaf':
        return 0
    if t['t'] in ('scale', 'neg'):
        return 1 + tree_depth(t['x'])
    return 1 + max(tree_depth(t['a']), tree_depth(t['b']))


def tree_leaves(t):
    if t['t'] == 'leaf':
        return [t['eq']]
    if t['t'] in ('scale', 'neg'):
        return tree_leaves(t['x'])
    return tree_leaves(t['a']) + tree_leaves(t['b'])


def elim_eq(coef, other, K, extra=None):
    """equilibrium with net coefficient `coef` of X (other species `other` on the opposite side)"""
    reac, prod = [], []
    (prod if coef > 0 else reac).append(['X', abs(coef)])
    (reac if coef > 0 else prod).append([other, 1])
    if extra:
        prod.append(extra)
    return {'reac': reac, 'prod': prod, 'ireac': [], 'iprod': [], 'K': K, 'dict': True}


# ------------------------------------------------------------------ real objects
def _K(v, kmode):
    import sympy
    if v is None:
        return None
    q = Fraction(*v) if isinstance(v, list) else Fraction(v)
    if kmode == 'sym':
        return sympy.Symbol('K%d' % q)
    if kmode == 'srat':
        return sympy.Rational(q.numerator, q.denominator)
    if kmode == 'sint':
        assert q.denominator == 1
        return sympy.Integer(q.numerator)
    if kmode == 'int':
        assert q.denominator == 1
        return int(q.numerator)
    if kmode == 'float':
        f = float(q)
        assert Fraction(f) == q
        return f
    return q


def build_eq(e, kmode='frac', **kw):
    from chempy import Equilibrium
    cont = dict if e['dict'] else OrderedDict
    mk = lambda l: cont((k, int(v)) for k, v in l)
    if e.get('checks') is not None:
        kw = dict(kw, checks=tuple(e['checks']))
    if e.get('dont_check') is not None:
        kw = dict(kw, dont_check=set(e['dont_check']))
    if e.get('set'):        # reac/prod given as sets of keys (multiplicity 1): `_init_stoich` turns them into sorted dicts
        assert e['dict'] and all(v == 1 for _, v in e['reac'] + e['prod'])
        mks = lambda l: set(k for k, _ in l)
        return Equilibrium(mks(e['reac']), mks(e['prod']), _K(e['K'], e.get('km', kmode)),
                           inact_reac=mk(e['ireac']), inact_prod=mk(e['iprod']), **kw)
    return Equilibrium(mk(e['reac']), mk(e['prod']), _K(e['K'], e.get('km', kmode)),
                       inact_reac=mk(e['ireac']), inact_prod=mk(e['iprod']), **kw)


def eval_tree(t, kmode):
    import sympy
    k = t['t']
    if k == 'leaf':
        return build_eq(t['eq'], kmode)
    if k == 'scale':
        x = eval_tree(t['x'], kmode)
        n = as_multiplier(mult_kind(t), t['n'])
        return x * n if t.get('right') else n * x
    if k == 'neg':
        return -eval_tree(t['x'], kmode)
    a = eval_tree(t['a'], kmode)
    b = eval_tree(t['b'], kmode)
    return a + b if k == 'add' else a - b


def canon_K(p):
    """param of a result -> Fraction | None | str (not a rational number)"""
    import sympy
    if p is None:
        return None
    if isinstance(p, (int, Fraction)):
        return Fraction(p)
    if isinstance(p, float):
        return p
    if isinstance(p, sympy.Basic):
        syms = sorted(p.free_symbols, key=str)
        if syms:
            p = p.subs({s: sympy.Rational(int(str(s)[1:])) for s in syms})
        if p.is_Rational:
            return Fraction(int(p.p), int(p.q))
        if p.is_Float:
            return float(p)
        return 'sympy:%s' % p
    return 'other:%r' % (p,)


def show_K(p):
    c = canon_K(p)
    if isinstance(c, float):
        return 'float:%r' % c
    return 'None' if c is None else (show_rat(c) if isinstance(c, Fraction) else c)


def show_stoich(d):
    return ','.join('%s:%d' % (k, int(v)) for k, v in d.items())


def show_equil(e):
    return '|'.join([show_stoich(e.reac), show_stoich(e.prod), show_stoich(e.inact_reac), show_stoich(e.inact_prod), show_K(e.param)])


# ------------------------------------------------------------------ independent evaluation (oracle)
class _Pred(Exception):
    pass


def own_eval(t, kmode):
    """(net vector, K as Fraction | exponent dict | None, netted?, positive?) with own integer/Fraction arithmetic;
    raises _Pred(class name) where the real code is entitled to raise"""
    k = t['t']
    if k == 'leaf':
        e = t['eq']
        vec = {s: v for s, v in _net(e).items() if v != 0}
        if not vec and not _unchecked(e):
            raise _Pred('ValueError')
        K = e['K']
        if K is not None:
            q = Fraction(*K) if isinstance(K, list) else Fraction(K)
            K = {int(q): 1} if kmode == 'sym' else q
        rk, pk = [x for x, _ in e['reac']], [x for x, _ in e['prod']]
        netted = not (set(rk) & set(pk)) and all(v > 0 for _, v in e['reac'] + e['prod']) and not (e['ireac'] or e['iprod'])
        positive = all(v > 0 for _, v in e['reac'] + e['prod'] + e['ireac'] + e['iprod'])
        return vec, K, netted, positive
    if k in ('scale', 'neg'):
        n = -1 if k == 'neg' else int(t['n'])
        vec, K, netted, positive = own_eval(t['x'], kmode)
        if K is not None:
            if isinstance(K, dict):
                K = {s: c * n for s, c in K.items() if c * n != 0}
            else:
                if K == 0 and n < 0:
                    raise _Pred('ZeroDivisionError')
                K = K ** n
        vec = {s: v * n for s, v in vec.items() if v * n != 0}
        if not vec:
            raise _Pred('ValueError')
        return vec, K, netted, positive
    va, Ka, _, _ = own_eval(t['a'], kmode)
    if k == 'sub':
        vb, Kb, _, _ = own_eval({'t': 'neg', 'x': t['b']}, kmode)
    else:
        vb, Kb, _, _ = own_eval(t['b'], kmode)
    if (Ka is None) != (Kb is None):
        raise _Pred('TypeError')
    if Ka is None:
        K = None
    elif isinstance(Ka, dict):
        K = {s: Ka.get(s, 0) + Kb.get(s, 0) for s in set(Ka) | set(Kb)}
        K = {s: c for s, c in K.items() if c != 0}
    else:
        K = Ka * Kb
    vec = {s: va.get(s, 0) + vb.get(s, 0) for s in set(va) | set(vb)}
    vec = {s: v for s, v in vec.items() if v != 0}
    if not vec:
        raise _Pred('ValueError')
    return vec, K, True, True


def check_result(r, vec, K, netted, positive, kmode, what):
    """the property on a returned Equilibrium"""
    species = sorted(set(vec) | set(r.keys()) | {'__absent__'})
    got = dict(zip(species, r.net_stoich(species)))
    # the observation itself takes a collection of keys: its type must not matter
    import numpy as np
    for kind, keys in (('tuple', tuple(species)), ('generator', (k for k in species)), ('dict keys', dict.fromkeys(species).keys()),
                       ('numpy str array', np.array(species)), ('map', map(str, species))):
        alt = tuple(r.net_stoich(keys))
        if alt != tuple(got[k] for k in species):
            return '%s: net_stoich(<%s>) = %r but net_stoich(<list>) = %r' % (what, kind, alt, tuple(got[k] for k in species))
    for s in species:
        if got[s] != vec.get(s, 0):
            return '%s: net coefficient of %s is %r, the integer combination of the operands gives %r' % (what, s, got[s], vec.get(s, 0))
    if positive:
        for nm in ('reac', 'prod', 'inact_reac', 'inact_prod'):
            for s, v in getattr(r, nm).items():
                if not v > 0:
                    return '%s: listed coefficient of %s in %s is %r (not positive)' % (what, s, nm, v)
    if netted:
        both = set(r.reac) & set(r.prod)
        if both:
            return '%s: not netted, %s on both sides' % (what, sorted(both))
        for s in list(r.reac) + list(r.prod):
            if vec.get(s, 0) == 0:
                return '%s: cancelled species %s still listed' % (what, s)
    if K is None:
        if r.param is not None:
            return '%s: param is %r, expected None' % (what, r.param)
    else:
        if isinstance(K, dict):
            want = Fraction(1)
            for p, c in K.items():
                want *= Fraction(p) ** c
            # second evaluation point: the symbolic result must be the monomial, not merely agree at one point
            import sympy
            if isinstance(r.param, sympy.Basic):
                alt = {s: sympy.Rational(int(str(s)[1:]) + 100) for s in r.param.free_symbols}
                v2 = r.param.subs(alt)
                w2 = Fraction(1)
                for p, c in K.items():
                    w2 *= Fraction(p + 100) ** c
                if not (v2.is_Rational and Fraction(int(v2.p), int(v2.q)) == w2):
                    return '%s: symbolic constant %s is not prod K_i^n_i with exponents %r' % (what, r.param, K)
        else:
            want = K
        got = canon_K(r.param)
        if isinstance(got, float):      # Python int ** negative int and float constants: the real arithmetic is in doubles
            if not close(got, want, 1e-9):
                return '%s: constant is %r, product of the operands\' constants raised to the multipliers is %s = %r' % (what, got, want, float(want))
        elif got != want:
            return '%s: constant is %s, product of the operands\' constants raised to the multipliers is %s' % (what, got, want)
    return None


def show_tree(t):
    k = t['t']
    if k == 'leaf':
        e = t['eq']
        side = lambda l: ' + '.join('%s%s' % ('' if v == 1 else '%d ' % v, x) for x, v in l) or '0'
        return '[%s = %s; %s]' % (side(e['reac']), side(e['prod']), e['K'])
    if k == 'scale':
        return '%d*%s' % (t['n'], show_tree(t['x']))
    if k == 'neg':
        return '-%s' % show_tree(t['x'])
    return '(%s %s %s)' % (show_tree(t['a']), '+' if k == 'add' else '-', show_tree(t['b']))


def same_equil(io, mo, tol):
    """one canonical equilibrium/exception line; a float constant of the real code is compared with the exact model value"""
    if io == mo:
        return True
    xs, ys = io.split('|'), mo.split('|')
    if len(xs) != len(ys) or xs[:-1] != ys[:-1] or not xs[-1].startswith('float:'):
        return False
    try:
        return close(float(xs[-1][6:]), Fraction(ys[-1]), tol)
    except (ValueError, ZeroDivisionError):
        return False


# ------------------------------------------------------------------ the property
class C11(Property):
    pid = 'C11'
    title = ('scale/add/sub of equilibria: net stoichiometry = the integer combination, listed coefficients positive, sums netted, '
             'K = prod K_i^n_i; eliminate gives non-zero integer multipliers removing the species')
    props_module = 'ChemModel.Props.C11'
    build_modules = ('ChemModel.Model.Equilibria', 'ChemModel.Basic.Proto')
    driver = 'ChemModel/Driver/C11.lean'
    n_quick, n_thorough = 3000, 60000
    float_tol = 1e-12
    clauses_without_theorem = (
        'operand objects are not changed by taking part in arithmetic (histories that use the same Equilibrium objects in several '
        'statements): the Lean model is pure by construction and history_spec only says that a history equals its expression trees IN THE MODEL; '
        'for the real objects this is decided by the `history` correspondence op (shared objects, every intermediate result re-usable) and the '
        "oracle's object-unchanged check",
        'symbolic constants: theorems hold in every field with decidable equality; sympy expressions are compared by evaluation at primes '
        '(unique factorisation) and a second point, not by a theorem about sympy',
        'constants given as Python int / float / sympy.Integer: the model is exact; Python int ** negative int and float arithmetic give doubles, '
        'compared to the exact value with 1e-9 relative tolerance (small magnitudes only)',
        'sympy.primefactors returns the primes dividing |n|: correspondence on 0..210 and on the generated coefficients only',
        'a negative coefficient accepted and stored because all_positive is not among the checks: outside the model (containers hold naturals, outcome `!negative-unchecked`); '
        'correspondence demands that the real constructor then returns exactly the given coefficients, oracle checks the stored containers',
        'operands that are not equilibria (a + 0, 0 + a, sum(list) without start): model addPy/subPy/sumPy refuse by definition; which Python objects are such operands is tied by correspondence/oracle only',
        'independence of the Python TYPE of collection arguments (rxns of eliminate as list / tuple / generator / iter / filter / map / dict view / '
        'numpy object array / deque / reversed; substance keys of net_stoich; reac/prod given as sets) and of the integer TYPE of multipliers '
        '(int, sympy.Integer, numpy int8/32/64, integral Fraction): the Lean model has one list type and Int; decided by correspondence and the '
        'oracle (same result / same refusal as for a list resp. a Python int)',
        'multipliers as arbitrary Python objects: the is_integer dispatch of __rmul__ is modelled (PyMul, theorems scaling_by_object_ok_iff / _result); what remains '
        'correspondence-only is the DESCRIPTION of a concrete object (which attribute it has, what its method returns, its value), produced by the harness and '
        'checked by the driver against the plain integer/null description; integral floats (2.0) go through float arithmetic (tolerance)',
        'constructor arguments checks / dont_check: theorem constructor_checks_ok_iff for non-negative coefficients; a negative coefficient with all_positive '
        'unchecked is outside the model (theorem negative_unchecked_region delimits exactly that region) and is tied by correspondence/oracle only; '
        'inputs failing two checks at once depend on set order and are not generated',
        'WHICH Python values count as a rate constant with units / a units module in as_reactions (hasattr(k, "units")): two Booleans in the model '
        '(theorem asReactions_ok_iff covers the refusal), classification tied by correspondence/oracle',
    )
    rule = ('refusal streams: every kind of non-integral multiplier, constructor checks/dont_check arguments, operands built unchecked (no net effect) inside trees/histories, rate constants with units; eliminate with rxns given as every container type (re-iterable and one-shot); multipliers as int / sympy.Integer / numpy ints / integral Fraction; HISTORIES: pools of 2-4 equilibrium objects and 2-10 statements (scale/negate/add/subtract) in which every operand and every earlier '
            'result may be used again, checked per statement and for unchanged earlier objects; random expression trees (scale by -4..5 incl. 0, negate, add, subtract; int and sympy.Integer multipliers; n*e and e*n) over random '
            'equilibria on a pool of 3-6 species (shared species on opposite sides, species on both sides of one operand, coefficient 1, '
            'zero coefficients, inactive parts, dict and unsorted OrderedDict containers) with K as fractions.Fraction (incl. 0 and negative), '
            'Python int, exactly representable float, sympy.Integer, sympy.Rational, a different kind per operand (mixed), sympy symbols (compared at prime values, unique factorisation) or None; eliminate on every coefficient pair of '
            '(-12..12)^2 without zeros plus zeros, triples, large coefficients; primefactors 0..210; intdiv on (-20..20)^2; cancel; as_reactions with '
            'kf/kb/both/none and c0 = 1 or a Fraction. A case counts as non-trivial when it is a distinct JSON value.')
    assumptions = ('equilibrium constants are exact rationals in the model; Python int / float constants are run too, their double results (int ** negative, float products) are compared with 1e-9 relative tolerance',
                   'sympy.Rational(0) ** negative is zoo (no exception) and is not generated; Fraction(0) ** negative raises ZeroDivisionError and is modelled',
                   'sympy.primefactors is modelled by its result (primes dividing |n|), tied by the primefactors correspondence op',
                   'cancel iterates over a Python set; its order is passed to the model (ties in |r| make the sign order dependent)',
                   'as_reactions without units computes 1 ** (nb - nf), a float for nb < nf: those rate constants are compared to 1e-12 relative',
                   'non-integer multipliers (float.is_integer is a bound method, hence truthy) are outside the property and the model')
    anchors = (('chempy/chemistry.py', 'Equilibrium.__rmul__'), ('chempy/chemistry.py', 'Equilibrium.__neg__'),
               ('chempy/chemistry.py', 'Equilibrium.__mul__'), ('chempy/chemistry.py', 'Equilibrium.__add__'),
               ('chempy/chemistry.py', 'Equilibrium.__sub__'), ('chempy/chemistry.py', 'Equilibrium.eliminate'),
               ('chempy/chemistry.py', 'Equilibrium.cancel'), ('chempy/chemistry.py', 'Equilibrium.as_reactions'),
               ('chempy/chemistry.py', 'Reaction._init_stoich'), ('chempy/chemistry.py', 'Reaction.__init__'),
               ('chempy/chemistry.py', 'Reaction.net_stoich'), ('chempy/chemistry.py', 'Reaction.keys'),
               ('chempy/chemistry.py', 'Reaction.check_any_effect'), ('chempy/chemistry.py', 'Reaction.check_all_positive'),
               ('chempy/util/arithmeticdict.py', '_imul'), ('chempy/util/arithmeticdict.py', 'ArithmeticDict.__mul__'),
               ('chempy/util/arithmeticdict.py', 'ArithmeticDict.__rmul__'), ('chempy/_util.py', 'intdiv'))

    # ---------------------------------------------------------------- generation
    def generate(self, rng, n, tier):
        cases = []
        # eliminate: every pair of non-zero coefficients in (-12..12)^2
        for a in range(-12, 13):
            for b in range(-12, 13):
                if a and b:
                    cases.append({'op': 'eliminate', 'wrt': 'X', 'kmode': 'frac', 'cont': CONTAINERS[(a * 25 + b) % len(CONTAINERS)],
                                  'eqs': [elim_eq(a, 'P', rat_json(Fraction(3, 2))), elim_eq(b, 'Q', rat_json(Fraction(5, 7)), ['R', 2])]})
        for z in ((0, 3), (3, 0), (0, 0)):
            for cont in ('list', 'gen', 'nparray'):
                cases.append({'op': 'eliminate', 'wrt': 'X', 'kmode': 'frac', 'cont': cont,
                              'eqs': [elim_eq(z[0] or 1, 'P', 2) if z[0] else elim_eq(1, 'P', 2) | {'prod': [['W', 1]]},
                                      elim_eq(z[1], 'Q', 3) if z[1] else elim_eq(1, 'Q', 3) | {'prod': [['W', 1]]}]})
        for cont in CONTAINERS:       # every container type on the docstring pair, a +-1 pair, a triple and the empty collection
            cases.append({'op': 'eliminate', 'wrt': 'X', 'kmode': 'frac', 'cont': cont, 'eqs': [elim_eq(-4, 'P', 2), elim_eq(1, 'Q', 3, ['R', 2])]})
            cases.append({'op': 'eliminate', 'wrt': 'X', 'kmode': 'frac', 'cont': cont, 'eqs': [elim_eq(1, 'P', 2), elim_eq(-1, 'Q', 3)]})
            cases.append({'op': 'eliminate', 'wrt': 'X', 'kmode': 'frac', 'cont': cont,
                          'eqs': [elim_eq(6, 'P', 2), elim_eq(-4, 'Q', 3), elim_eq(9, 'R', 5)]})
            cases.append({'op': 'eliminate', 'wrt': 'X', 'kmode': 'frac', 'cont': cont, 'eqs': []})
        # refusal of multipliers that are not integers (every kind, n*e and e*n), integral floats accepted
        base = elim_eq(-2, 'P', rat_json(Fraction(3, 2)))
        for kind in BAD_MULT:
            for right in (False, True):
                cases.append({'op': 'rmul', 'kmode': 'frac', 'eq': base, 'n': None, 'nk': 'bad:' + kind, 'right': right})
        for nn in (2, -3, 1, 0):
            cases.append({'op': 'rmul', 'kmode': 'frac', 'eq': base, 'n': nn, 'nk': 'flt', 'right': nn < 0})
        for m in range(0, 211):
            cases.append({'op': 'primefactors', 'n': m, 'negate': m % 2 == 1})
        step = 1 if tier == 'thorough' else 3
        for p in range(-20, 21, 1):
            for q in sorted(set(range(-20, 21, step)) | {0, -1, 1}):
                cases.append({'op': 'intdiv', 'p': p, 'q': q})
        k = max(0, n - 600)
        depth = 3 if tier == 'quick' else 5
        for i in range(k):
            r = rng.random()
            pool = rng.sample(NAMES, rng.randint(3, 6))
            kmode = rng.choice(KMODES)
            small = kmode in SMALL
            if r < 0.22:
                # a HISTORY: several statements over the same operand objects, every result usable again later
                m = rng.randint(2, 4)
                weird = rng.random() < 0.1
                eqs = []
                while len(eqs) < m:
                    e = gen_eq(rng, pool, kmode, inact=weird and rng.random() < 0.3, plain=not weird, p_zero=0.1 if weird else 0.0)
                    if _has_effect(e) or _unchecked(e):
                        eqs.append(e)
                nst = rng.randint(2, 5) if small else rng.randint(2, 7 if tier == 'quick' else 10)
                c = {'op': 'history', 'kmode': kmode, 'pool': eqs, 'steps': gen_history(rng, m, nst, small)}
                cases.append(plain_multipliers(c) if kmode == 'int' and has_zero_K(c) else c)
            elif r < 0.5:
                mixed_none = rng.random() < 0.04
                weird = rng.random() < 0.12      # inactive parts / zero coefficients / OrderedDict order

                def leaf():
                    km = 'none' if (mixed_none and rng.random() < 0.3 and kmode == 'frac') else kmode
                    if weird:
                        return gen_eq(rng, pool, km, inact=rng.random() < 0.5, plain=False, p_zero=0.1)
                    return gen_eq(rng, pool, km)
                t = gen_tree(rng, rng.randint(1, min(depth, 3) if small else depth), leaf, small)
                c = {'op': 'expr', 'kmode': kmode, 'tree': t}
                cases.append(plain_multipliers(c) if kmode == 'int' and has_zero_K(c) else c)
            elif r < 0.58:
                e = gen_eq(rng, pool, kmode, inact=rng.random() < 0.5, plain=False, p_zero=0.1)
                c = {'op': 'rmul', 'kmode': kmode, 'eq': e, 'n': rng.randint(-3, 3) if small else rng.randint(-5, 5),
                     'nk': rng.choice(MULT_KINDS + ([] if kmode == 'sym' else ['flt'])), 'right': rng.random() < 0.3}
                if rng.random() < 0.08:
                    c.update(n=None, nk='bad:' + rng.choice(BAD_MULT))
                    cases.append(c)
                else:
                    cases.append(plain_multipliers(c) if kmode == 'int' and has_zero_K(c) else c)
            elif r < 0.68:
                a = gen_eq(rng, pool, kmode, inact=rng.random() < 0.3, plain=rng.random() < 0.5, p_zero=0.05)
                if rng.random() < 0.1:       # complete cancellation
                    b = dict(a, reac=a['prod'], prod=a['reac']) if rng.random() < 0.5 else a
                else:
                    b = gen_eq(rng, pool, kmode if rng.random() < 0.95 else 'none', inact=rng.random() < 0.3)
                opn = rng.choice(['add', 'sub'])
                v = rng.random()
                if v < 0.06:
                    cases.append({'op': opn, 'kmode': kmode, 'a': a, 'b': None})
                elif v < 0.12:
                    cases.append({'op': opn, 'kmode': kmode, 'a': None, 'b': b})
                elif v < 0.3:     # the way a user adds up a list
                    more = [gen_eq(rng, pool, kmode) for _ in range(rng.randint(0, 3))]
                    cases.append({'op': 'sum', 'kmode': kmode, 'start': a if rng.random() < 0.7 else None, 'eqs': [b] + more if rng.random() < 0.9 else []})
                else:
                    cases.append({'op': opn, 'kmode': kmode, 'a': a, 'b': b})
            elif r < 0.70:
                e = gen_eq(rng, pool, 'none', inact=rng.random() < 0.4, plain=False, p_zero=0.15)
                v = rng.random()
                if v < 0.35 and e['reac']:
                    e['prod'] = [list(kv) for kv in e['reac']]
                if 0.25 < v < 0.6:
                    side = rng.choice([x for x in ('reac', 'prod', 'ireac', 'iprod') if e[x]] or ['reac'])
                    if e[side]:
                        rng.choice(e[side])[1] = -rng.randint(1, 3)
                cases.append({'op': 'checks', 'reac': e['reac'], 'prod': e['prod'], 'ireac': e['ireac'], 'iprod': e['iprod'], 'dict': e['dict']})
            elif r < 0.74:
                cases.append(self._mk_case(rng, pool, kmode))
            elif r < 0.84:
                m = rng.choice([2, 2, 2, 3])
                big = rng.random() < 0.3
                eqs = []
                for j in range(m):
                    e = gen_eq(rng, pool, 'frac', inact=rng.random() < 0.1, p_both=0.3)
                    if big:
                        for side in ('reac', 'prod'):
                            for kv in e[side]:
                                if rng.random() < 0.5:
                                    kv[1] = rng.randint(1, 60)
                    eqs.append(e)
                cases.append({'op': 'eliminate', 'wrt': rng.choice(pool), 'kmode': 'frac', 'eqs': eqs, 'cont': rng.choice(CONTAINERS)})
            elif r < 0.92:
                a = gen_eq(rng, pool, 'frac', inact=rng.random() < 0.2, p_both=0.25)
                b = gen_eq(rng, pool, 'frac', inact=rng.random() < 0.2, p_both=0.25)
                if rng.random() < 0.5:
                    for kv in a['reac'] + a['prod']:
                        kv[1] *= rng.randint(1, 5)
                cases.append({'op': 'cancel', 'kmode': 'frac', 'a': a, 'b': b})
            else:
                km = rng.choice(['frac', 'frac', 'srat', 'none'])
                e = gen_eq(rng, pool, km, inact=rng.random() < 0.3, plain=False)
                which = rng.random()
                kf = _rat(rng, 'frac') if which < 0.45 or which > 0.95 else None
                kb = _rat(rng, 'frac') if 0.45 <= which < 0.9 or which > 0.95 else None
                c0 = None if rng.random() < 0.4 else rat_json(Fraction(rng.randint(1, 9), rng.randint(1, 9)) * (0 if (rng.random() < 0.03 and km == 'frac') else 1))
                ru = None
                if rng.random() < 0.12 and (kf is not None or kb is not None):
                    ru = rng.choice(['subclass', 'quantity'])      # a rate constant that carries units
                    if ru == 'quantity':
                        c0 = None
                cases.append({'op': 'as_reactions', 'kmode': km, 'eq': e, 'kf': kf, 'kb': kb, 'units_c0': c0, 'rate_units': ru})
        return cases

    def _mk_case(self, rng, pool, kmode):
        e = gen_eq(rng, pool, kmode, inact=rng.random() < 0.4, plain=False, p_zero=0.15)
        e.pop('checks', None)       # set below, together with coefficients that the chosen checks let through
        e.pop('dont_check', None)
        m = rng.random()
        if m < 0.25 and e['reac']:
            e['reac'][0][1] = -rng.randint(1, 3)
        elif m < 0.35 and e['iprod']:
            e['iprod'][0][1] = -1
        elif m < 0.5:
            e['prod'] = [list(kv) for kv in e['reac']]            # no effect
        elif m < 0.55:
            e['reac'], e['prod'] = [], []
        elif m < 0.9:        # the constructor's checks / dont_check arguments
            e.pop('checks', None)
            e.pop('dont_check', None)
            v = rng.random()
            if v < 0.2:          # both given: refused whatever they contain
                e['checks'] = rng.choice([[], ['any_effect'], ['all_positive', 'any_effect']])
                e['dont_check'] = rng.choice([[], ['any_effect']])
            elif v < 0.35:       # unknown check name on an otherwise valid equilibrium: getattr fails
                if not _has_effect(e) or any(x < 0 for _, x in e['reac'] + e['prod'] + e['ireac'] + e['iprod']):
                    e = gen_eq(rng, pool, kmode)
                    e.pop('checks', None)
                    e.pop('dont_check', None)
                if rng.random() < 0.5:
                    e['checks'] = ['any_effect', 'no_such_check']
                else:
                    e['dont_check'] = ['spelling']
            elif v < 0.45:       # all_positive not checked: a negative coefficient is accepted and STORED (outside the model's naturals)
                if e['reac']:
                    e['reac'][0][1] = -rng.randint(1, 3)
                if rng.random() < 0.5:
                    e['checks'] = rng.choice([[], ['all_integral'], ['consistent_units', 'all_integral']])
                else:
                    e['dont_check'] = rng.choice([['all_positive'], ['all_positive', 'any_effect']])
                    if e['dont_check'] == ['all_positive'] and not _has_effect(e):
                        e['dont_check'] = ['all_positive', 'any_effect']
            elif v < 0.7:        # explicit checks (order as given), negative coefficients only when all_positive is checked
                names = rng.sample(['any_effect', 'all_positive', 'all_integral', 'consistent_units'], rng.randint(0, 4))
                if 'all_positive' in names and e['reac'] and rng.random() < 0.4:
                    e['reac'][0][1] = -1
                if rng.random() < 0.4 and e['reac']:
                    e['prod'] = [list(kv) for kv in e['reac']]
                e['checks'] = names
            else:
                names = rng.sample(['any_effect', 'all_integral', 'consistent_units'], rng.randint(0, 3))
                if rng.random() < 0.5 and e['reac']:
                    e['prod'] = [list(kv) for kv in e['reac']]
                e['dont_check'] = names
        elif m < 0.97:       # containers given as sets of keys
            for kv in e['reac'] + e['prod']:
                kv[1] = 1
            e['dict'], e['set'] = True, True
        return {'op': 'mk', 'kmode': kmode, 'eq': e}

    # ---------------------------------------------------------------- model side
    def model_case(self, c):
        op = c['op']
        if op == 'cancel':
            try:
                ks = list(build_eq(c['b']).keys())     # iteration order of the real set in this process
            except Exception:
                ks = []
            return dict(c, keys=ks)
        if op == 'rmul':
            # describe the multiplier OBJECT by what __rmul__ inspects of it (model type PyMul); the driver checks that this
            # description and the plain one ("n": integer or null) give the same outcome
            k = mult_kind(c)
            return dict(c, mult=describe_multiplier(bad_multiplier(k[4:]) if k.startswith('bad:') else as_multiplier(k, c['n'])))
        if op == 'as_reactions':
            return dict(c, c0=1 if c['units_c0'] is None else c['units_c0'], units_given=c['units_c0'] is not None,
                        rate_has_units=bool(c.get('rate_units')))
        return c

    # ---------------------------------------------------------------- real code
    def impl(self, c):
        from chempy import Equilibrium
        import sympy
        op = c['op']
        km = c.get('kmode', 'frac')
        try:
            if op == 'mk':
                return show_equil(build_eq(c['eq'], km))
            if op == 'rmul':
                n = as_multiplier(mult_kind(c), c['n'])
                return show_equil(build_eq(c['eq'], km) * n if c.get('right') else n * build_eq(c['eq'], km))
            if op == 'checks':
                o = build_eq(dict(c, K=None, checks=[]), km)
                return 'any_effect=%s;all_positive=%s' % (str(bool(o.check_any_effect())).lower(), str(bool(o.check_all_positive())).lower())
            if op == 'neg':
                return show_equil(-build_eq(c['eq'], km))
            if op in ('add', 'sub'):
                a = 0 if c['a'] is None else build_eq(c['a'], km)        # null: a number instead of an equilibrium
                b = 0 if c['b'] is None else build_eq(c['b'], km)
                return show_equil(a + b if op == 'add' else a - b)
            if op == 'sum':
                objs = [build_eq(e, km) for e in c['eqs']]
                r = sum(objs) if c['start'] is None else sum(objs, build_eq(c['start'], km))
                return '0' if (isinstance(r, int) and r == 0) else show_equil(r)
            if op == 'expr':
                return show_equil(eval_tree(c['tree'], km))
            if op == 'history':
                outcomes, changed = run_history(c['pool'], c['steps'], km)
                lines = [exc_name(o) if isinstance(o, Exception) else show_equil(o) for o in outcomes]
                if changed:
                    lines.append('!MUTATED: ' + changed[0])
                return ';;'.join(lines)
            if op == 'eliminate':
                res = Equilibrium.eliminate(as_container(c.get('cont', 'list'), [build_eq(e, km) for e in c['eqs']]), c['wrt'])
                assert all(int(x) == x for x in res)
                return show_int_list(res)
            if op == 'primefactors':
                return show_int_list(sympy.primefactors(-c['n'] if c.get('negate') else c['n']))
            if op == 'intdiv':
                from chempy._util import intdiv
                return str(intdiv(c['p'], c['q']))
            if op == 'cancel':
                a, b = build_eq(c['a'], km), build_eq(c['b'], km)
                if list(b.keys()) != c['keys']:
                    return '!set-order-changed'
                r = a.cancel(b)
                return 'inf' if r == float('inf') else str(int(r))
            if op == 'as_reactions':
                e = build_eq(c['eq'], km)
                units = None if c['units_c0'] is None else types.SimpleNamespace(molar=_K(c['units_c0'], 'frac'))
                f, b = e.as_reactions(kf=with_units(_K(c['kf'], 'frac'), c.get('rate_units')),
                                      kb=with_units(_K(c['kb'], 'frac'), c.get('rate_units')), units=units)
                return ';'.join('|'.join([show_stoich(r.reac), show_stoich(r.prod), show_stoich(r.inact_reac), show_stoich(r.inact_prod),
                                          show_K(r.param)]) for r in (f, b))
        except Exception as ex:
            return exc_name(ex)
        return '!unknown-op'

    def same(self, c, io, mo):
        if io == mo:
            return True
        if c['op'] == 'mk' and mo == '!negative-unchecked':
            # region outside the model (its containers hold naturals): all_positive is not among the checks and a coefficient is
            # negative; Python accepts and stores it -- the real outcome must be exactly the object with the given coefficients
            e = c['eq']
            cont = (lambda l: sorted(l)) if e['dict'] else (lambda l: l)
            want = '|'.join(','.join('%s:%d' % (k, v) for k, v in cont([tuple(kv) for kv in e[side]])) for side in ('reac', 'prod', 'ireac', 'iprod'))
            return io.rsplit('|', 1)[0] == want
        if c['op'] in ('expr', 'rmul', 'neg', 'add', 'sub', 'mk', 'sum'):
            return same_equil(io, mo, 1e-9)
        if c['op'] == 'history':
            a, b = io.split(';;'), mo.split(';;')
            return len(a) == len(b) and all(same_equil(x, y, 1e-9) for x, y in zip(a, b))
        if c['op'] == 'as_reactions' and 'float:' in io and mo not in EXC:
            # 1 ** negative int is a float in Python: the rate constant went through float arithmetic
            a, b = io.split(';'), mo.split(';')
            if len(a) != len(b):
                return False
            for x, y in zip(a, b):
                xs, ys = x.split('|'), y.split('|')
                if xs[:-1] != ys[:-1]:
                    return False
                if xs[-1].startswith('float:'):
                    if not close(float(xs[-1][6:]), Fraction(ys[-1]), self.float_tol):
                        return False
                elif xs[-1] != ys[-1]:
                    return False
            return True
        return False

    # ---------------------------------------------------------------- property oracle (independent of the model)
    def oracle(self, c):
        from chempy import Equilibrium
        op = c['op']
        km = c.get('kmode', 'frac')
        if op == 'rmul' and mult_kind(c).startswith('bad:'):
            # a multiplier that is not an integer must be refused (an equilibrium scaled by it has no consistent constant)
            try:
                e = build_eq(c['eq'], km)
            except ValueError:
                return None
            m = bad_multiplier(mult_kind(c)[4:])
            try:
                r = e * m if c.get('right') else m * e
            except TypeError:
                return None
            except Exception as ex:
                return 'multiplier %r: raised %s instead of TypeError' % (m, exc_name(ex))
            return 'multiplier %r (not an integer) was accepted: %s' % (m, show_equil(r) if isinstance(r, Equilibrium) else repr(r)[:80])
        if op == 'checks':
            coeffs = [v for side in ('reac', 'prod', 'ireac', 'iprod') for _, v in c[side]]
            want = (any(v != 0 for v in _net(c).values()), all(v >= 0 for v in coeffs))
            o = build_eq(dict(c, K=None, checks=[]), km)
            got = (bool(o.check_any_effect()), bool(o.check_all_positive()))
            if got != want:
                return 'check_any_effect(), check_all_positive() = %r, the coefficients say %r' % (got, want)
            return None
        if op == 'mk':
            e = c['eq']
            coeffs = [v for side in ('reac', 'prod', 'ireac', 'iprod') for _, v in e[side]]
            default = {'any_effect', 'all_positive', 'all_integral', 'consistent_units'}
            if e.get('checks') is not None and e.get('dont_check') is not None:
                want = 'ValueError'
            else:
                names = set(e['checks']) if e.get('checks') is not None else default ^ set(e.get('dont_check') or [])
                bad_name = bool(names - default)
                fails = ('all_positive' in names and any(v < 0 for v in coeffs)) or ('any_effect' in names and not _has_effect(e))
                if bad_name and fails:
                    return None          # which of the two is met first depends on the set order
                want = 'AttributeError' if bad_name else ('ValueError' if fails else 'ok')
            try:
                o = build_eq(e, km)
                got = 'ok'
            except Exception as ex:
                got = exc_name(ex)
            if got != want:
                return 'constructor with checks=%r dont_check=%r: %s, expected %s' % (e.get('checks'), e.get('dont_check'), got, want)
            if got == 'ok':
                for nm, side in (('reac', 'reac'), ('prod', 'prod'), ('inact_reac', 'ireac'), ('inact_prod', 'iprod')):
                    if dict(getattr(o, nm)) != {k: v for k, v in e[side]}:
                        return 'constructor stored %s = %r for %r' % (nm, dict(getattr(o, nm)), e[side])
            return None
        if op in ('add', 'sub') and (c['a'] is None or c['b'] is None):
            # a number where an equilibrium is due (e.g. the 0 of sum()): must be refused, never answered with an equilibrium
            try:
                a = 0 if c['a'] is None else build_eq(c['a'], km)
                b = 0 if c['b'] is None else build_eq(c['b'], km)
            except ValueError:
                return None
            try:
                r = a + b if op == 'add' else a - b
            except (TypeError, AttributeError):
                return None
            except Exception as ex:
                return '%s with a number as operand raised %s' % (op, exc_name(ex))
            return '%s with a number as operand returned %r' % (op, r)
        if op == 'sum':
            eqs = ([] if c['start'] is None else [c['start']]) + c['eqs']
            try:
                objs = [build_eq(e, km) for e in c['eqs']]
                start = None if c['start'] is None else build_eq(c['start'], km)
            except ValueError:
                return None
            try:
                outcome = sum(objs) if start is None else sum(objs, start)
            except TypeError as ex:
                if start is None and objs:
                    return None          # sum() starts from the int 0: refused (there is no __radd__)
                outcome = ex
            except (ValueError, ZeroDivisionError) as ex:
                outcome = ex
            if not eqs:
                return None if outcome == 0 else 'sum([]) = %r' % (outcome,)
            t = {'t': 'leaf', 'eq': eqs[0]}
            for e in eqs[1:]:
                t = {'t': 'add', 'a': t, 'b': {'t': 'leaf', 'eq': e}}
            return self._judge(outcome, t, km, 'sum of %d equilibria' % len(eqs))
        if op in ('expr', 'rmul', 'add', 'sub', 'neg'):
            if op == 'expr':
                t = c['tree']
            elif op == 'rmul':
                t = {'t': 'scale', 'n': c['n'], 'nk': mult_kind(c), 'right': c.get('right', False), 'x': {'t': 'leaf', 'eq': c['eq']}}
            elif op == 'neg':
                t = {'t': 'neg', 'x': {'t': 'leaf', 'eq': c['eq']}}
            else:
                t = {'t': op, 'a': {'t': 'leaf', 'eq': c['a']}, 'b': {'t': 'leaf', 'eq': c['b']}}
            try:
                outcome = eval_tree(t, km)
            except (ValueError, ZeroDivisionError, TypeError) as ex:
                outcome = ex
            return self._judge(outcome, t, km, 'expression')
        if op == 'history':
            pool = c['pool']
            try:
                outcomes, changed = run_history(pool, c['steps'], km)
            except (ValueError, ZeroDivisionError, TypeError):
                return None                      # an operand itself is not a proper equilibrium
            if changed:
                return 'arithmetic changed an operand object: ' + changed[0]
            trees = history_trees(pool, c['steps'])[len(pool):]
            for k, (o, t) in enumerate(zip(outcomes, trees)):
                f = self._judge(o, t, km, 'statement %d of the history, %s' % (k, show_tree(t)))
                if f is not None:
                    return f
            return None
        if op == 'eliminate':
            eqs = c['eqs']
            cont = c.get('cont', 'list')
            # the collection type of `rxns` must not matter: same multipliers (or the same refusal) as for a list
            try:
                objs0 = [build_eq(e, km) for e in eqs]
            except ValueError:
                return None
            outs = []
            for kind in dict.fromkeys(['list', cont]):
                try:
                    outs.append([int(x) for x in Equilibrium.eliminate(as_container(kind, objs0), c['wrt'])])
                except Exception as ex:
                    outs.append(exc_name(ex))
            if outs[0] != outs[-1]:
                return 'eliminate(<%s of %d equilibria>, %r) gives %r, for a list of the same equilibria %r' % (cont, len(eqs), c['wrt'], outs[-1], outs[0])
            # any number of equilibria: refusals where due, else non-zero integers with m_0*v_0 + m_i*v_i = 0 for every i
            vs = [_net(e).get(c['wrt'], 0) for e in eqs]
            due = 'IndexError' if not eqs else ('ZeroDivisionError' if 0 in vs else None)
            if due or isinstance(outs[-1], str):
                if outs[-1] != due:
                    return 'eliminate on coefficients %r gives %r, %s is due' % (vs, outs[-1], due or 'a list of multipliers')
                return None
            ms = outs[-1]
            if len(ms) != len(vs) or any(x == 0 for x in ms):
                return 'eliminate returned %r for coefficients %r: not one non-zero integer per equilibrium' % (ms, vs)
            for i in range(1, len(vs)):
                if ms[0] * vs[0] + ms[i] * vs[i] != 0:
                    return 'eliminate returned %r for coefficients %r: %d*%d + %d*%d != 0' % (ms, vs, ms[0], vs[0], ms[i], vs[i])
            if len(eqs) != 2 or any(e['ireac'] or e['iprod'] for e in eqs):
                return None
            v = [_net(e).get(c['wrt'], 0) for e in eqs]
            if 0 in v:
                return None
            try:
                objs = [build_eq(e, km) for e in eqs]
            except ValueError:
                return None
            try:
                m = Equilibrium.eliminate(as_container(cont, objs), c['wrt'])
            except Exception as ex:
                return 'eliminate raised %s for coefficients %r' % (exc_name(ex), v)
            if len(m) != 2 or any(int(x) != x for x in m) or any(x == 0 for x in m):
                return 'eliminate returned %r for coefficients %r: not two non-zero integers' % (m, v)
            if int(m[0]) * v[0] + int(m[1]) * v[1] != 0:
                return 'eliminate returned %r for coefficients %r: %d*%d + %d*%d != 0' % (m, v, m[0], v[0], m[1], v[1])
            if max(abs(int(x)) for x in m) > 40:      # the common multiple is not the least one: K ** m can be astronomically large
                objs = [build_eq(dict(e, K=None), km) for e in eqs]
            try:
                r = m[0] * objs[0] + m[1] * objs[1]
            except ValueError:
                return None if all(int(m[0]) * _net(eqs[0]).get(s, 0) + int(m[1]) * _net(eqs[1]).get(s, 0) == 0
                                   for s in set(_net(eqs[0])) | set(_net(eqs[1]))) else 'combination raised ValueError'
            except ZeroDivisionError:
                return None
            if c['wrt'] in r.keys() or r.net_stoich([c['wrt']])[0] != 0:
                return 'combination %r of the two equilibria still contains %s' % (m, c['wrt'])
            return None
        if op == 'primefactors':
            import sympy
            n = c['n']
            want = [p for p in range(2, n + 1) if n % p == 0 and all(p % d for d in range(2, int(p ** 0.5) + 1))]
            got = [int(x) for x in sympy.primefactors(-n if c.get('negate') else n)]
            return None if got == want else 'primefactors(%d) = %r, the primes dividing it are %r' % (n, got, want)
        if op == 'cancel':
            if any(v < 0 for e in (c['a'], c['b']) for side in ('reac', 'prod', 'ireac', 'iprod') for _, v in e[side]):
                return None
            try:
                a, b = build_eq(c['a'], km), build_eq(c['b'], km)
            except ValueError:
                return None
            na, nb = _net(c['a']), _net(c['b'])
            keys = [k for side in ('reac', 'prod', 'ireac', 'iprod') for k, _ in c['b'][side]]
            try:
                got = a.cancel(b)
            except Exception as ex:
                got = exc_name(ex)
            if any(nb.get(k, 0) == 0 for k in keys):
                return None if got == 'ZeroDivisionError' else 'cancel: %r, ZeroDivisionError is due (a species of rxn has net coefficient 0)' % (got,)
            if not keys:
                return None if got == float('inf') else 'cancel with an empty rxn gives %r' % (got,)
            trunc = lambda p, q: abs(p) // abs(q) * (1 if (p >= 0) == (q > 0) else -1)
            cands = [trunc(-na.get(k, 0), nb[k]) for k in keys]
            if isinstance(got, str) or got not in cands or abs(got) != min(abs(x) for x in cands):
                return 'cancel gives %r; candidates intdiv(-v_self, v_rxn) per species are %r (the one of least magnitude is due)' % (got, cands)
            return None
        if op == 'intdiv':
            from chempy._util import intdiv
            p, q = c['p'], c['q']
            if q == 0:
                return None
            want = abs(p) // abs(q) * (1 if (p >= 0) == (q > 0) else -1)
            got = intdiv(p, q)
            if got != want:
                return 'intdiv(%d, %d) = %r, truncation toward zero gives %d' % (p, q, got, want)
            return None
        if op == 'as_reactions' and c.get('rate_units') and c['units_c0'] is None:
            # a rate constant with units but no `units` module: must be refused, not silently combined with c0 = 1
            try:
                obj = build_eq(c['eq'], km)
            except ValueError:
                return None
            try:
                obj.as_reactions(kf=with_units(_K(c['kf'], 'frac'), c['rate_units']), kb=with_units(_K(c['kb'], 'frac'), c['rate_units']), units=None)
            except ValueError:
                return None
            except Exception as ex:
                return 'as_reactions(rate constant with units, units=None) raised %s instead of ValueError' % exc_name(ex)
            return 'as_reactions accepted a rate constant with units although units=None'
        if op == 'as_reactions':
            if (c['kf'] is None) == (c['kb'] is None) or c['eq']['K'] is None:
                return None
            e = c['eq']
            if any(v < 0 for side in ('reac', 'prod', 'ireac', 'iprod') for _, v in e[side]) or not _has_effect(e):
                return None
            K = Fraction(*e['K']) if isinstance(e['K'], list) else Fraction(e['K'])
            c0 = Fraction(1) if c['units_c0'] is None else (Fraction(*c['units_c0']) if isinstance(c['units_c0'], list) else Fraction(c['units_c0']))
            d = sum(v for _, v in e['prod']) - sum(v for _, v in e['reac'])
            if c0 == 0 or K == 0:
                return None
            units = None if c['units_c0'] is None else types.SimpleNamespace(molar=c0)
            try:
                obj = build_eq(e, km)
            except ValueError:
                return None
            f, b = obj.as_reactions(kf=_K(c['kf'], 'frac'), kb=_K(c['kb'], 'frac'), units=units)
            if dict(f.reac) != dict(obj.reac) or dict(f.prod) != dict(obj.prod) or dict(b.reac) != dict(obj.prod) or dict(b.prod) != dict(obj.reac):
                return 'as_reactions: forward/backward stoichiometries are not the two directions of the equilibrium'
            if (dict(f.inact_reac) != dict(obj.inact_reac) or dict(f.inact_prod) != dict(obj.inact_prod)
                    or dict(b.inact_reac) != dict(obj.inact_prod) or dict(b.inact_prod) != dict(obj.inact_reac)):
                return 'as_reactions: inactive parts of the pair are not those of the equilibrium (forward) and swapped (backward)'
            kf, kb = f.param, b.param
            want = K * c0 ** d
            lhs = canon_K(kf)
            rhs = canon_K(kb)
            if isinstance(lhs, str) or isinstance(rhs, str):
                return 'as_reactions: rate constants %r, %r are not numbers' % (kf, kb)
            if isinstance(lhs, float) or isinstance(rhs, float):
                if not close(float(lhs), float(Fraction(rhs) * want), 1e-12):
                    return 'as_reactions: kf = %r, kb*K*c0^(nb-nf) = %r' % (lhs, float(rhs * want))
            elif lhs != rhs * want:
                return 'as_reactions: kf = %s but kb*K*c0^(nb-nf) = %s' % (lhs, rhs * want)
            return None
        return None

    def _judge(self, outcome, t, km, what):
        """the property for one expression tree `t` and what the real code produced for it (an Equilibrium or an exception)"""
        leaves = tree_leaves(t)
        if any(v < 0 for e in leaves for side in ('reac', 'prod', 'ireac', 'iprod') for _, v in e[side]):
            return None
        if self._has_sum(t) and any(e['ireac'] or e['iprod'] for e in leaves):
            return None            # inactive parts are not carried by addition: outside the property's quantifier
        try:
            want = own_eval(t, km)
        except _Pred as p:
            want = p
        # own_eval follows Python's evaluation order (left operand first, `param ** n` before the constructor, `K * None` before
        # the constructor), so the FIRST refusal it predicts is the one the real code must produce
        if isinstance(outcome, Exception):
            if isinstance(want, _Pred):
                if exc_name(outcome) != str(want):
                    return '%s: raised %s (%s) where %s is due' % (what, exc_name(outcome), str(outcome)[:60], want)
                return None
            return '%s: raised %s: %s although every intermediate result is a proper equilibrium' % (what, exc_name(outcome), str(outcome)[:80])
        if isinstance(want, _Pred):
            return '%s: returned %s where %s is due (no net effect left / 0 ** negative / a constant combined with None)' % (
                what, show_equil(outcome), want)
        vec, K, netted, positive = want
        return check_result(outcome, vec, K, netted, positive, km, what)

    def _has_sum(self, t):
        if t['t'] == 'leaf':
            return False
        if t['t'] in ('scale', 'neg'):
            return self._has_sum(t['x'])
        return True

    def _any_pred(self, t, km, name):
        """does any subtree entitle the real code to raise `name`?"""
        try:
            own_eval(t, km)
        except _Pred as p:
            if str(p) == name:
                return True
        if t['t'] == 'leaf':
            return False
        if t['t'] in ('scale', 'neg'):
            return self._any_pred(t['x'], km, name)
        return self._any_pred(t['a'], km, name) or self._any_pred(t['b'], km, name)

    def classify(self, c):
        op = c['op']
        if op == 'expr':
            return 'expr:depth%d:%s' % (tree_depth(c['tree']), c['kmode'])
        if op in ('add', 'sub') and (c['a'] is None or c['b'] is None):
            return op + ':number-operand'
        if op == 'history':
            return 'history:%dsteps:%s' % (len(c['steps']), c['kmode'])
        if op == 'eliminate':
            return 'eliminate:%d:%s' % (len(c['eqs']), c.get('cont', 'list'))
        if op in ('rmul',):
            if c['n'] is None:
                return 'rmul:refused-multiplier:' + mult_kind(c)[4:]
            return 'rmul:%s%s' % ('neg' if c['n'] < 0 else 'zero' if c['n'] == 0 else 'pos', ':float' if mult_kind(c) == 'flt' else '')
        if op == 'mk' and (c['eq'].get('checks') is not None or c['eq'].get('dont_check') is not None):
            return 'mk:checks-args'
        if op == 'as_reactions':
            return 'as_reactions:%s%s' % ('kf' if c['kf'] is not None else '', 'kb' if c['kb'] is not None else '')
        return op

    def shrink(self, case, still_fails):
        if case.get('op') != 'expr':
            return case
        cur = case
        changed = True
        while changed:
            changed = False
            t = cur['tree']
            subs = []
            if t['t'] in ('scale', 'neg'):
                subs = [t['x']]
            elif t['t'] in ('add', 'sub'):
                subs = [t['a'], t['b']]
            for s in subs:
                cand = dict(cur, tree=s)
                try:
                    if still_fails(cand):
                        cur, changed = cand, True
                        break
                except Exception:
                    pass
        return cur


PROPERTY = C11()
