"""C04 — the generated ODE system is exactly the kinetic model of the reaction system (translation validation per system)"""
from collections import OrderedDict
from fractions import Fraction
import json
from lib.framework import Property
from . import kinetics_gen as kg
from .util import *

KINDS = ('raw', 'ma', 'named', 'key', 'sym')
PARTS = ('reac', 'prod', 'inact_reac', 'inact_prod')
KEYPOOL = ['k1', 'k2', 'k3', 'k10', 'k1_', 'k_1', 'kf', 'kb', 'kf2', 'K', 'k']      # several share a prefix on purpose


# ---- case <-> chempy objects -----------------------------------------------------------------------
def _num(v, num):
    q = kg.frac(v)
    if num == 'int' and q.denominator != 1:
        num = 'Fraction'
    return kg.to_num(rat_json(q), num)


class Convertible(object):
    """a rate parameter that is no Expr but converts itself: `Reaction.rate_expr()` calls `param.as_RateExpr()`"""
    def __init__(self, k):
        self.k = k

    def as_RateExpr(self):
        from chempy.kinetics.rates import MassAction
        return MassAction([self.k])


def mk_poly(p, num):
    from chempy.util._expr import create_Poly
    cls = create_Poly(p['pk'])
    return cls([_num(a, num) for a in p['a']], unique_keys=(p['uk'],) if p.get('uk') else None)


def mk_pexpr(e, num):
    """{'c': rat} | {'s': key} | {'add': [a, b]} | {'mul': [a, b]} -> chempy.util._expr objects"""
    from chempy.util._expr import Constant, Symbol, _AddExpr, _MulExpr
    if 'c' in e:
        return Constant([_num(e['c'], num)])
    if 's' in e:
        return Symbol(unique_keys=(e['s'],))
    if 'add' in e:
        return _AddExpr([mk_pexpr(e['add'][0], num), mk_pexpr(e['add'][1], num)])
    return _MulExpr([mk_pexpr(e['mul'][0], num), mk_pexpr(e['mul'][1], num)])


def pexpr_syms(e):
    """symbols of an expression, left to right (the order `_reg_unique` meets them)"""
    if 'c' in e:
        return []
    if 's' in e:
        return [e['s']]
    a, b = e.get('add') or e.get('mul')
    return pexpr_syms(a) + pexpr_syms(b)


def pexpr_value(e, look):
    if 'c' in e:
        q = kg.frac(e['c'])
        import sympy
        return sympy.Rational(q.numerator, q.denominator)
    if 's' in e:
        return look(e['s'])
    if 'add' in e:
        return pexpr_value(e['add'][0], look) + pexpr_value(e['add'][1], look)
    return pexpr_value(e['mul'][0], look) * pexpr_value(e['mul'][1], look)


def mk_param(p, num):
    from chempy.kinetics.rates import MassAction
    from chempy.util._expr import Symbol
    kind = p['kind']
    if kind == 'raw' and p.get('conv'):
        return Convertible(_num(p['k'], num))          # an object with `as_RateExpr()` (like ArrheniusParam / EyringParam)
    if kind == 'raw':
        return _num(p['k'], num)
    if kind == 'ma':
        return MassAction([_num(p['k'], num)])
    if kind == 'named':
        return MassAction([_num(p['k'], num)], unique_keys=[p['uk']])
    if kind == 'key':
        return p['uk']
    if kind == 'sym':
        return MassAction([Symbol(unique_keys=(p['uk'],))])
    if kind == 'poly':                                   # a rate constant that depends on a PARAMETER key: a0 + a1*T (+ a2*T**2)
        return MassAction([mk_poly(p, num)])
    if kind == 'strarg':                                 # MassAction(['T']): the argument is the NAME of a variable
        return MassAction([p['key']])
    raise ValueError(kind)


def _coef(v, coef_type):
    """a stoichiometric coefficient: int when integral, else Fraction or (dyadic, exact) float"""
    q = kg.frac(v) if isinstance(v, list) else Fraction(v)
    if q.denominator == 1:
        return int(q)
    if coef_type == 'float':
        f = float(q)
        assert Fraction(f) == q
        return f
    return q


def _parts(spec, coef_type):
    return dict(reac=OrderedDict((k, _coef(v, coef_type)) for k, v in spec['reac']),
                prod=OrderedDict((k, _coef(v, coef_type)) for k, v in spec['prod']),
                inact_reac=OrderedDict((k, _coef(v, coef_type)) for k, v in spec['inact_reac']),
                inact_prod=OrderedDict((k, _coef(v, coef_type)) for k, v in spec['inact_prod']))


def mk_reaction(spec, num, coef_type=None, param=None):
    from chempy import Reaction
    pt = _parts(spec, coef_type)
    return Reaction(pt['reac'], pt['prod'], mk_param(spec['param'], num) if param is None else param,
                    inact_reac=pt['inact_reac'], inact_prod=pt['inact_prod'], checks=())


def mk_reactions(specs, num, coef_type=None, existing=()):
    """the reactions of a system.  `share: g` = the reactions of group g with the same parameter spec get the SAME rate-expression
    object (aliasing); `from_copy: j` = the reaction is derived from reaction j with `Reaction.copy(reac=..., prod=..., ...)`
    (its param is whatever `copy` hands on; a different parameter spec is then assigned through the public attribute)."""
    shared, out = {}, []
    for s in specs:
        pool = list(existing) + out
        j = s.get('from_copy')
        if j is not None and 0 <= j < len(pool):
            r = pool[j].copy(**_parts(s, coef_type))
            if live_param(r.param) != _norm_param(s['param']):
                r.param = mk_param(s['param'], num)
        else:
            p = None
            if s.get('share') is not None and s['param']['kind'] in ('ma', 'named', 'sym'):
                key = (s['share'], json.dumps(s['param'], sort_keys=True))
                if key not in shared:
                    shared[key] = mk_param(s['param'], num)
                p = shared[key]
            r = mk_reaction(s, num, coef_type, p)
        out.append(r)
    return out


def _norm_param(p):
    q = {k: v for k, v in p.items() if k in ('kind', 'uk', 'k')}
    if 'k' in q:
        q['k'] = rat_json(kg.frac(q['k']))
    return q


def mk_rsys(c):
    """substances registered under their keys; `alias` = {key: Substance.name} for substances whose name differs from the key"""
    from chempy import ReactionSystem, Substance
    alias = dict(c.get('alias') or [])
    rxns = mk_reactions(c['rxns'], c['num'], c.get('coef_type'))
    if not alias:
        return ReactionSystem(rxns, list(c['subst']), checks=())
    subs = OrderedDict((k, Substance(alias.get(k, k))) for k in c['subst'])
    return ReactionSystem(rxns, subs, checks=())


def cstr_pair(c):
    return ('feedratio', OrderedDict((s, 'fc_' + s) for s in c['subst']))


def run_builder(c, rsys=None, builder=None, include_params=None, subs=None):
    """-> (odesys, extra) of the real builder for the configuration of the case (exceptions propagate)"""
    from chempy.kinetics.ode import get_odesys, _create_odesys
    from chempy.util._expr import Constant
    rsys = rsys if rsys is not None else mk_rsys(c)
    builder = builder or c['builder']
    if builder == 'get':
        ip = c['include_params'] if include_params is None else include_params
        sb = c['subs'] if subs is None else subs
        items = [(k, _num(v, c['num'])) for k, v in sb] + [(k, mk_pexpr(e, c['num'])) for k, e in (c.get('active') or [])]
        kw = {}
        if c.get('consts'):
            from types import SimpleNamespace
            kw['constants'] = SimpleNamespace(**{k: _num(v, c['num']) for k, v in c['consts']})
        return get_odesys(rsys, include_params=ip, cstr=bool(c['cstr']), substitutions=OrderedDict(items) if items else None, **kw)
    kw = {}
    if c.get('subst_symbols') is not None:
        import sympy
        kw['substance_symbols'] = OrderedDict((k, sympy.Symbol(k)) for k in c['subst_symbols'])
    if c.get('subst_symbols_plain') is not None:
        import sympy
        kw['substance_symbols'] = dict((k, sympy.Symbol(k)) for k in c['subst_symbols_plain'])     # plain dict: insertion order
    if c.get('param_symbols') is not None:
        import sympy
        mk = OrderedDict if c['param_symbols']['ordered'] else dict
        kw['parameter_symbols'] = mk((k, sympy.Symbol(k)) for k in c['param_symbols']['keys'])
    if c['cstr']:
        kw['rates_kw'] = {'cstr_fr_fc': cstr_pair(c)}
    if c['param_exprs'] or c.get('pe_poly'):
        kw['parameter_expressions'] = OrderedDict([(k, Constant([_num(v, c['num'])])) for k, v in c['param_exprs']] +
                                                  [(k, mk_poly(pp, c['num'])) for k, pp in (c.get('pe_poly') or [])])
    return _create_odesys(rsys, **kw)


# ---- canonical form of the real expressions ---------------------------------------------------------
def sym_names(odesys):
    """symbol -> name; dependent variables first (a parameter sharing a *symbol* with one keeps the name, it is the same)"""
    m = OrderedDict()
    for s, n in zip(odesys.dep, odesys.names):
        m.setdefault(s, n)
    for s, n in zip(odesys.params, odesys.param_names):
        m.setdefault(s, n)
    return m


def canon_poly(expr, m):
    """sympy expression -> model normal form [[[[name, exp], ...], 'n/d'], ...] (sorted), via sympy.Poly(...).terms()"""
    import sympy
    expr = sympy.sympify(expr)
    gens = list(m)
    if not gens:
        q = kg.to_frac(expr)
        return [] if q == 0 else [[[], show_rat(q)]]
    if expr.free_symbols - set(gens):
        return '!foreign-symbol:%s' % sorted(map(str, expr.free_symbols - set(gens)))
    p = sympy.Poly(expr, *gens)
    out = {}
    for exps, coeff in p.terms():
        mono = {}
        for g, e in zip(gens, exps):
            if e:
                mono[m[g]] = mono.get(m[g], 0) + int(e)
        key = tuple(sorted(mono.items()))
        out[key] = out.get(key, 0) + kg.to_frac(coeff)
    return sort_poly([[[list(ve) for ve in k], show_rat(v)] for k, v in out.items() if v != 0])


def sort_poly(p):
    return sorted(p, key=lambda t: [tuple(ve) for ve in t[0]])


def poly_wellformed(p):
    """the model's list is a normal form: monomials sorted by symbol without repetition, positive exponents, every monomial once,
    no zero coefficient"""
    seen = set()
    for mono, coeff in p:
        names = [v for v, _ in mono]
        if names != sorted(set(names)) or any(e <= 0 for _, e in mono) or Fraction(coeff) == 0:
            return False
        k = tuple(map(tuple, mono))
        if k in seen:
            return False
        seen.add(k)
    return True


def point_of(c):
    return {k: kg.frac(v) for k, v in c['point']}


def eval_cb(cb, odesys, pt):
    y = [float(pt.get(n, 0)) for n in odesys.names]
    p = [float(pt.get(n, 0)) for n in odesys.param_names]
    return [float(x) for x in cb(0.0, y, p)]


# ---- the expectation, straight from the case (independent of chempy and of the Lean model) -----------
def expected_free(c, builder=None, include_params=None, subs=None):
    """-> (dict unique key -> 'sym' | Fraction) : how each reaction's coefficient must appear, or None when the builder
    is entitled to reject (a key without value anywhere)"""
    builder = builder or c['builder']
    out = []
    if builder == 'get':
        ip = c['include_params'] if include_params is None else include_params
        sb = dict((k, kg.frac(v)) for k, v in (c['subs'] if subs is None else subs))
        for s in c['rxns']:
            p = s['param']
            if p['kind'] in ('raw', 'ma'):
                out.append(kg.frac(p['k']))
            elif p['uk'] in sb:
                out.append(sb[p['uk']])
            elif not ip:
                out.append(p['uk'])
            elif p['kind'] == 'named':
                out.append(kg.frac(p['k']))
            else:
                return None
        return out
    pe = dict((k, kg.frac(v)) for k, v in c['param_exprs'])
    for s in c['rxns']:
        p = s['param']
        if p['kind'] == 'raw':
            return None
        if p['kind'] == 'ma':
            out.append(kg.frac(p['k']))
        elif p['uk'] in pe:
            out.append(pe[p['uk']])
        else:
            out.append(p['uk'])
    return out


def expected_rhs(c, coeffs, value_of, feed_value_of=None):
    """N^T r (+ feed) with hand-made mass-action monomials; value_of(name) gives the symbol/number of a name"""
    rates = []
    for s, k in zip(c['rxns'], coeffs):
        r = value_of(k) if isinstance(k, str) else k
        for j, nu in s['reac']:
            r = r * value_of(j) ** nu
        rates.append(r)
    f = []
    for sk in c['subst']:
        tot = 0
        for s, r in zip(c['rxns'], rates):
            tot = tot + kg.net_of(s, sk) * r
        if c['cstr']:
            fv = feed_value_of or value_of
            tot = tot + fv('feedratio') * (fv('fc_' + sk) - value_of(sk))
        f.append(tot)
    return f, rates


def expected_scale(c, coeffs, value_of):
    """sum of the absolute values of the terms of N^T r (+ feed) at a point: the scale of float cancellation in f_cb"""
    rates = []
    for s, k in zip(c['rxns'], coeffs):
        r = abs(value_of(k) if isinstance(k, str) else k)
        for j, nu in s['reac']:
            r = r * abs(value_of(j)) ** nu
        rates.append(r)
    f = []
    for sk in c['subst']:
        tot = sum(abs(kg.net_of(s, sk)) * r for s, r in zip(c['rxns'], rates))
        if c['cstr']:
            tot = tot + abs(value_of('feedratio')) * (abs(value_of('fc_' + sk)) + abs(value_of(sk)))
        f.append(tot)
    return f, rates


def poly_scale(p, pt):
    tot = Fraction(0)
    for mono, coeff in p:
        t = abs(Fraction(coeff))
        for v, e in mono:
            t *= abs(pt.get(v, Fraction(0))) ** e
        tot += t
    return tot


def fclose(a, b, scale):
    """float from the lambdified callback vs exact value; `scale` = sum of |terms| (absolute tolerance for cancellation)"""
    return close(a, b, rtol=1e-9, atol=1e-12 * float(scale) + 1e-300)


def _rational_powers(e):
    """float exponents (0.5, 1.5, ...) written as rationals; fractional powers y**(p/q) of symbols turned into integer powers by
    the exact substitution y = z**q with a fresh positive symbol z (q = lcm of the denominators)"""
    import sympy
    from math import lcm
    e = sympy.sympify(e)
    e = e.replace(lambda t: t.is_Pow and t.exp.is_Float, lambda t: sympy.Pow(t.base, sympy.nsimplify(t.exp, rational=True)))
    return e


def _unroot(a, b):
    import sympy
    from math import lcm
    a, b = _rational_powers(a), _rational_powers(b)
    dens = {}
    for t in (a.atoms(sympy.Pow) | b.atoms(sympy.Pow)):
        if t.base.is_Symbol and t.exp.is_Rational and not t.exp.is_Integer:
            dens[t.base] = lcm(dens.get(t.base, 1), int(t.exp.q))
    if not dens:
        return a, b
    sub = {y: sympy.Symbol('z_' + y.name, positive=True) ** q for y, q in dens.items()}
    return sympy.powdenest(a.subs(sub), force=True), sympy.powdenest(b.subs(sub), force=True)


def poly_equal(a, b):
    """identity a == b of the generated right-hand sides: exact for rational coefficients; rational reaction orders p/q are
    removed first by the exact substitution y = z**q (z > 0), after which both sides are polynomials; where a float
    stoichiometric coefficient made sympy compute in floating point (coef_type 'float' times a non-dyadic constant) the
    coefficients are compared with relative tolerance 1e-9"""
    import sympy
    a, b = _unroot(a, b)
    d = sympy.expand(a - b)
    if d == 0:
        return True
    if not d.atoms(sympy.Float):
        return False
    a, b = sympy.expand(a), sympy.expand(b)
    gens = sorted(a.free_symbols | b.free_symbols, key=str)
    if not gens:
        return abs(float(a) - float(b)) <= 1e-9 * max(1.0, abs(float(a)), abs(float(b)))
    try:
        pa, pb = dict(sympy.Poly(a, *gens).terms()), dict(sympy.Poly(b, *gens).terms())
    except sympy.PolynomialError:
        return False
    for m in set(pa) | set(pb):
        x, y = float(pa.get(m, 0)), float(pb.get(m, 0))
        if abs(x - y) > 1e-9 * max(1.0, abs(x), abs(y)):
            return False
    return True


def participates(c):
    ks = set(k for s in c['rxns'] for k in kg.spec_keys(s))
    return ks


def shared_inconsistent(c):
    """a unique key carried by two `named` parameters with different stored constants (violates the documented
    'unique among all instances'), or by a `named` and a value-less kind"""
    seen = {}
    for s in c['rxns']:
        p = s['param']
        if p['kind'] in ('named', 'key', 'sym'):
            v = kg.frac(p['k']) if p['kind'] == 'named' else None
            if p['uk'] in seen and seen[p['uk']] != v:
                return True
            seen[p['uk']] = v
    return False


def py_number_entry(c):
    """some right-hand side is a plain Python number (constants are Python numbers, the substance is only touched by
    reactions without active reactant and with a numeric coefficient, no feed): pyodesys refuses those (AttributeError)"""
    if c['num'] == 'Rational' or c['cstr']:
        return False
    sb = set(k for k, _ in c['subs']) if c['builder'] == 'get' else set(k for k, _ in c['param_exprs'])

    def numeric(s):
        p = s['param']
        if s['reac']:
            return False
        if p['kind'] in ('raw', 'ma'):
            return True
        if p['uk'] in sb:
            return True
        if c['builder'] == 'get' and c['include_params'] and p['kind'] == 'named':
            return True
        return False
    for sk in c['subst']:
        touching = [s for s in c['rxns'] if sk in kg.spec_keys(s)]
        if touching and all(numeric(s) for s in touching):
            return True
    return False


def clean(c):
    """a system every builder configuration must accept (given values for value-less keys): at least one reaction, every
    substance takes part or is fed, species are substances, no reserved / clashing names, no repeated key"""
    if not c['rxns'] or py_number_entry(c):
        return False
    names = set(c['subst'])
    uks = [s['param']['uk'] for s in c['rxns'] if s['param']['kind'] in ('named', 'key', 'sym')]
    pnames = set(uks) | ({'feedratio'} | {'fc_' + s for s in c['subst']} if c['cstr'] else set())
    if names & pnames or {'time', 't', 'x'} & (names | pnames):
        return False
    if not participates(c) <= names:
        return False
    if not c['cstr'] and participates(c) != names:
        return False
    if c['builder'] == 'create':
        if len(uks) != len(set(uks)) or any(s['param']['kind'] == 'raw' for s in c['rxns']):
            return False
        pe = set(k for k, _ in c['param_exprs'])
        if pe & names or any(s['param']['kind'] == 'sym' and s['param']['uk'] in pe for s in c['rxns']) or \
                pe & ({'feedratio'} | {'fc_' + s for s in c['subst']}):
            return False
    else:
        ok = set(uks) | ({'feedratio'} | {'fc_' + s for s in c['subst']} if c['cstr'] else set())
        if any(k not in ok for k, _ in c['subs']):
            return False
    return True


# ---- histories over ONE ReactionSystem object --------------------------------------------------------
def live_param(p):
    """Reaction.param as it is NOW, in case form"""
    from chempy.kinetics.rates import MassAction
    from chempy.util._expr import Symbol
    if isinstance(p, str):
        return {'kind': 'key', 'uk': p}
    if isinstance(p, Convertible):
        return {'kind': 'raw', 'k': rat_json(kg.to_frac(p.k))}
    if isinstance(p, MassAction):
        (arg,) = p.args
        if isinstance(arg, Symbol):
            return {'kind': 'sym', 'uk': arg.unique_keys[0]}
        if p.unique_keys:
            return {'kind': 'named', 'uk': p.unique_keys[0], 'k': rat_json(kg.to_frac(arg))}
        return {'kind': 'ma', 'k': rat_json(kg.to_frac(arg))}
    return {'kind': 'raw', 'k': rat_json(kg.to_frac(p))}


def live_state(rsys):
    """the public state of the system as it is NOW: substance order, stoichiometry dicts and parameters"""
    rx = []
    for r in rsys.rxns:
        rx.append({'reac': [[k, int(v)] for k, v in r.reac.items()], 'prod': [[k, int(v)] for k, v in r.prod.items()],
                   'inact_reac': [[k, int(v)] for k, v in r.inact_reac.items()],
                   'inact_prod': [[k, int(v)] for k, v in r.inact_prod.items()], 'param': live_param(r.param)})
    return {'subst': list(rsys.substances), 'rxns': rx}


def same_state(pure, live):
    def norm(p):
        q = {k: v for k, v in p.items() if k in ('kind', 'uk', 'k')}
        if 'k' in q:
            q['k'] = rat_json(kg.frac(q['k']))
        return q
    return pure['subst'] == live['subst'] and len(pure['rxns']) == len(live['rxns']) and all(
        norm(a['param']) == norm(b['param']) and all(dict(map(tuple, a[x])) == dict(map(tuple, b[x])) for x in PARTS)
        for a, b in zip(pure['rxns'], live['rxns']))


def apply_pure(state, st):
    do = st['do']
    if do == 'set_param':
        state['rxns'][st['i']] = dict(state['rxns'][st['i']], param=st['param'])
    elif do == 'replace_rxn':
        state['rxns'][st['i']] = dict(st['rxn'])
    elif do == 'append':
        state['rxns'].append(dict(st['rxn']))
    elif do == 'delete':
        del state['rxns'][st['i']]
    elif do == 'permute_rxns':
        state['rxns'] = [state['rxns'][i] for i in st['perm']]
    elif do == 'sort_substances':
        state['subst'] = sorted(state['subst'])
    else:
        raise ValueError(do)


def apply_real(rsys, st, num):
    """the same mutation through the public attributes of the SAME objects"""
    do = st['do']
    if do == 'set_param':
        rsys.rxns[st['i']].param = mk_param(st['param'], num)
    elif do == 'replace_rxn':
        rsys.rxns[st['i']] = mk_reactions([st['rxn']], num, existing=rsys.rxns)[0]
    elif do == 'append':
        new = mk_reactions([st['rxn']], num, existing=rsys.rxns)[0]          # possibly `rsys.rxns[j].copy(reac=...)`
        if st.get('via') == 'iadd':
            rsys += [new]
        else:
            rsys.rxns.append(new)
    elif do == 'delete':
        del rsys.rxns[st['i']]
    elif do == 'permute_rxns':
        rsys.rxns[:] = [rsys.rxns[i] for i in st['perm']]
    elif do == 'sort_substances':
        rsys.sort_substances_inplace()
    else:
        raise ValueError(do)
    return rsys


def single_of(state, st, num):
    """the build case for the current state"""
    c = {k: v for k, v in st.items() if k != 'do'}
    c.update(op='build', subst=list(state['subst']), rxns=[dict(r, ordered=True) for r in state['rxns']], num=num)
    return c                                   # `alias` is irrelevant here: histories run on the live object


class C04(Property):
    pid = 'C04'
    title = ('the right-hand side generated by get_odesys / _create_odesys is, as a polynomial identity in concentrations and free '
             'parameters, N^T r (net stoichiometry transposed times the mass-action rates, + feed terms under CSTR), one equation per '
             'substance in substance order, names = substance keys, parameter names = the registered keys; inlining, freeing, '
             'substituting parameters or using the other builder changes only which symbols are free')
    props_module = 'ChemModel.Props.C04'
    build_modules = ('ChemModel.Model.OdeBuild', 'ChemModel.Model.Kinetics', 'ChemModel.Driver.KineticsIO', 'ChemModel.Basic.Proto')
    driver = 'ChemModel/Driver/C04.lean'
    n_quick, n_thorough = 220, 4000
    case_timeout = 120
    rule = ('random reaction systems (1-8/12 substances, 0-6/12 reactions, coefficients 0-3, catalysts, inactive parts, duplicated '
            'reactions, substances in no reaction), each rate parameter one of: plain number, MassAction([k]), MassAction([k], '
            'unique_keys=[uk]), string key, MassAction([Symbol(uk)]); unique keys drawn from a pool with shared prefixes (k1, k10, k1_), '
            'sometimes shared between reactions; the SAME MassAction object as param of several reactions (20 %), reactions derived with '
            'Reaction.copy(reac=...) (10 %); 10 % oracle-only cases with non-integral coefficients (products / inactive parts, and rational active orders p/q); constants int / Fraction / sympy.Rational; 15 % histories over ONE ReactionSystem '
            'object (build, then set rxn.param / replace / append (list, +=) / delete / permute reactions / sort_substances_inplace, '
            'build again with either entry point and any configuration, expected value from the CURRENT public state); configurations: get_odesys with '
            'include_params True/False x passive substitutions (subset of keys, CSTR keys, unknown key) x cstr, _create_odesys with '
            'cstr and parameter_expressions={key: Constant}; Expr-valued substitutions (Constant / Symbol / + / * over fresh symbols, earlier '
            'keys, CSTR keys, concentrations, undefined symbols), constants= objects, parameter objects with as_RateExpr(), user-supplied '
            'substance_symbols / parameter_symbols (right, permuted, short, plain dict, missing key), 8 % oracle-only cases with parameter-keyed '
            'rate expressions (create_Poly, string arguments); name-clash and reserved-name streams; a rational evaluation point per '
            'case. A case is non-trivial when it is a distinct JSON value with at least one reaction.')
    assumptions = ('sympy and pyodesys are third party: sympy.Poly(...).terms() is used as canoniser, SymbolicSys.from_callback is '
                   'modelled (names/param_names clash, number of expressions, dict -> list by name), neither is verified',
                   'rate parameters are mass-action with a rational constant, a named constant, a string key or a Symbol argument; '
                   'non-polynomial rate expressions (Arrhenius, Eyring, ...) are C16\'s subject; active (Expr-valued) substitutions '
                   'and unit registries are not modelled',
                   '_ori_pk is a Python set: the order of the CSTR keys inside param_names depends on the hash seed; that part is '
                   'compared as a set, the registered unique keys are compared in registration order',
                   'symbols are identified by name (what _create_odesys does; get_odesys rejects a name shared by a substance and a parameter)',
                   'a system that reads variables[\'time\'] is outside the model (reported, never accepted as agreement)',
                   'dependent variables are named by the KEYS of rsys.substances (30 % of the cases register substances under alias keys, '
                   'key != Substance.name); Substance.name only reaches latex_names, which is not modelled',
                   'f_cb / rate_exprs_cb are lambdified float code: compared at rational points with relative tolerance 1e-9 '
                   '(absolute 1e-12 x sum of |terms| where the exact value cancels)')
    clauses_without_theorem = (
        'active (Expr-valued) substitutions of get_odesys: modelled for Constant / Symbol / + / * (polynomial) expressions with theorems '
        '(rhsG_is_NT_r, active_substitution_means_expression); expressions with parameter_keys of their own (_subst_pk non-empty) and '
        'non-polynomial classes are not modelled (C16)',
        'rate expressions with PARAMETER keys (MassAction([Poly_T([a0, a1])]) from create_Poly, MassAction([\'T\']) string arguments, string '
        'parameters whose parameter_expressions entry is such a polynomial; get_odesys all_pk / constants= for such keys, _create_odesys key '
        'collection lines 617-627): oracle only (8 % of the cases, kind \'pk\'), no Lean model',
        'user-supplied CSTR tuples cstr=(fr_key, fc_dict) / arbitrary rates_kw: only the shape ("feedratio", {s: "fc_"+s}) over all '
        'substances (cstr=True, and the same tuple for _create_odesys) is modelled',
        'unit registries (unit_registry=, output_*_unit, dedimensionalisation, _reg_unique_unit): not modelled (C10 treats units); constants= is '
        'modelled for plain numbers (theorem constants_are_passive_substitutions), not for quantities',
        'the closures max_euler_step_cb / linear_dependencies defined at the end of get_odesys: C06 / C05',
        'non-polynomial rate expressions (Arrhenius, Eyring, Radiolytic, ...): C16; here every parameter is mass-action with a '
        'rational / named / symbolic constant',
        'user-supplied substance_symbols (OrderedDict or plain dict) / parameter_symbols of _create_odesys: modelled for Symbol(key) values '
        '(theorems user_symbols, user_symbols_kinetic_model, plain_dict_symbols_bind_by_key); other symbol names and a user time_symbol are '
        'not modelled',
        'rhsG_is_NT_r is stated in the internal form (N^T r for what `variables` resolves to); explicit-environment corollaries exist for '
        'constants= (constants_kinetic_model) and user symbols (user_symbols_kinetic_model), NOT for Expr-valued (active) substitutions: there '
        'the oracle decides (own expectation from the case)',
        '_create_odesys with a substance named like a parameter / unique key (one sympy symbol for both): listed finding '
        '_create_odesys:substance-named-like-parameter-key, the oracle claims N^T r with the two quantities kept apart (with user-supplied symbol '
        'dicts the oracle still makes no claim there); a unique key called \'time\' that is substituted is accepted '
        'by get_odesys but `unmodelled` in the Lean model (never generated)',
        'odesys.f_cb and extra[\'rate_exprs_cb\'] (lambdified float code): correspondence and oracle at rational points only',
        'the order of the CSTR keys inside param_names (a Python set): compared as a set, no theorem',
        'linear_invariants handed to SymbolicSys: not a field of the model\'s OdeSys; that the GENERATED right-hand sides conserve every linear '
        'invariant of the stoichiometry is proved (generated_rhs_conserves_weights; C05.generated_rhs_conserves for the composition vectors); '
        'variables[\'time\'] is not part of the model',
        'acceptance of both builders is characterised by one-sided theorems (get_odesys_accepts / get_odesys_accepted_implies, '
        'create_odesys_accepts / create_odesys_accepted_implies), not by an iff: the two sides differ in the name-capture and '
        'Python-number cases',
        'non-integral stoichiometric coefficients, with the all_integral check omitted: (a) products / inactive parts (H2O2 -> H2O + 1/2 O2), '
        '(b) rational ACTIVE reaction orders p/q (H2 + 1/2 Br2 (+ 1/2 Br2) -> 2 HBr: rate k*[H2]*[Br2]^(1/2)). The Lean model keeps NATURAL '
        'coefficients (C03\'s Model/Kinetics.lean: exponents must be naturals for c^nu to stay in a ring; the polynomial model has no roots), '
        'so both classes are decided by the oracle only (10 % of the cases: Fraction / exact-float coefficients, both builders, all '
        'configurations; for (b) the exact substitution y = z^q before the polynomial comparison and f_cb / rate_exprs_cb at positive '
        'perfect-power points)',
        'aliasing of Python objects (one rate-expression object as param of several reactions, reactions derived with Reaction.copy): the '
        'model sees values only; that object identity does not matter is decided by correspondence + oracle (share / from_copy streams)',
        'statelessness across histories (build, mutate rxn.param / rsys.rxns / substance order on the same objects, build again): the '
        'model is a pure function of the current public state; that the real builders are too is decided by history '
        'correspondence + oracle only (15 % of the cases, corpus/C04/histories.json)',
        'the link model <-> Python (both builders, all rejections) is translation validation per generated system, not a theorem')
    anchors = (('chempy/kinetics/ode.py', 'get_odesys'), ('chempy/kinetics/ode.py', '_create_odesys'),
               ('chempy/chemistry.py', 'Reaction.rate_expr'), ('chempy/chemistry.py', 'Reaction.rate'),
               ('chempy/reactionsystem.py', 'ReactionSystem.rates'),
               ('chempy/kinetics/rates.py', 'MassAction.active_conc_prod'), ('chempy/kinetics/rates.py', 'MassAction.rate_coeff'),
               ('chempy/kinetics/rates.py', 'MassAction.__call__'),
               ('chempy/util/_expr.py', 'Expr.arg'), ('chempy/util/_expr.py', 'Expr.all_args'), ('chempy/util/_expr.py', 'Expr._all_keys'),
               ('chempy/util/_expr.py', 'Symbol.__call__'), ('chempy/util/_expr.py', 'Constant.__call__'))

    # ---------------------------------------------------------------------------------------
    def generate(self, rng, n, tier):
        out = []
        for _ in range(n):
            r = rng.random()
            if r < 0.15:
                out.append(self._history(rng, tier))
            elif r < 0.25:
                out.append(self._fractional(rng, tier))
            elif r < 0.33:
                out.append(self._pk(rng, tier))
            else:
                out.append(self._gen_one(rng, tier))
        return out

    def _share(self, rng, rxns):
        """aliasing: one rate-expression OBJECT as `param` of several reactions; reactions derived with Reaction.copy(...)"""
        if len(rxns) < 2:
            return
        r = rng.random()
        if r < 0.2:
            cand = [i for i, s in enumerate(rxns) if s['param']['kind'] in ('ma', 'named', 'sym')]
            if cand:
                i = rng.choice(cand)
                for j in rng.sample([j for j in range(len(rxns)) if j != i], rng.randint(1, min(2, len(rxns) - 1))):
                    rxns[j]['param'] = dict(rxns[i]['param'])
                    rxns[j]['share'] = 0
                rxns[i]['share'] = 0
        elif r < 0.3:
            i = rng.randrange(len(rxns) - 1)
            j = rng.randrange(i + 1, len(rxns))
            rxns[j]['from_copy'] = i
            if rng.random() < 0.7:
                rxns[j]['param'] = dict(rxns[i]['param'])

    def _pk(self, rng, tier):
        """rate expressions with PARAMETER keys (oracle only): MassAction([Poly_T([a0, a1, ...], unique_keys=(uk,)?)]) with
        create_Poly('T'), MassAction(['T']) (a string argument = the name of a variable), string parameters whose
        parameter_expressions entry is such a polynomial; substitutions / `constants=` for the parameter key"""
        for _ in range(50):
            c = self._gen_one(rng, tier)
            if c['rxns'] and clean(c):
                break
        for k in ('active', 'consts', 'subst_symbols', 'subst_symbols_plain', 'param_symbols'):
            c.pop(k, None)
        c['op'] = None
        c['kind'] = 'pk'
        num = c['num']
        pks = rng.choice([['T'], ['T'], ['T', 'Tb']])
        uks_used = [s['param']['uk'] for s in c['rxns'] if 'uk' in s['param']]
        n_poly = 0
        pe_poly = []
        for i, s in enumerate(c['rxns']):
            r = rng.random()
            if r < 0.45 or (i == 0 and not n_poly):
                pp = {'kind': 'poly', 'pk': rng.choice(pks), 'a': [kg.rand_rat(rng, num) for _ in range(rng.randint(2, 3))]}
                if rng.random() < 0.5:
                    pp['uk'] = 'a0_%d' % i
                if c['builder'] == 'create' and rng.random() < 0.4:                  # string parameter + parameter_expressions
                    key = 'kx%d' % i
                    s['param'] = {'kind': 'key', 'uk': key}
                    pe_poly.append([key, {'pk': pp['pk'], 'a': pp['a']}])
                else:
                    s['param'] = pp
                n_poly += 1
            elif r < 0.6 and n_poly:
                s['param'] = {'kind': 'strarg', 'key': rng.choice(pks)}
            for k in ('share', 'from_copy'):
                s.pop(k, None)
        c['pe_poly'] = pe_poly
        c['param_exprs'] = [kv for kv in c['param_exprs'] if kv[0] not in [k for k, _ in pe_poly]]
        if c['builder'] == 'get':
            cand = pks + ['a0_%d' % i for i in range(len(c['rxns']))]
            for k in cand:
                if rng.random() < 0.15 and k not in [x[0] for x in c['subs']]:
                    present = k in pks or any(s['param'].get('uk') == k for s in c['rxns'])
                    if present:
                        c['subs'].append([k, kg.rand_rat(rng, num)])
            if rng.random() < 0.3:
                c['consts'] = [[k, kg.rand_rat(rng, num)] for k in pks if k not in [x[0] for x in c['subs']] and rng.random() < 0.7]
        c['point'] = c['point'] + [[k, rat_json(Fraction(rng.randint(-3, 9), rng.choice([1, 2])))]
                                   for k in pks + ['a0_%d' % i for i in range(len(c['rxns']))] + ['kx%d' % i for i in range(len(c['rxns']))]]
        return c

    def _fractional(self, rng, tier):
        """non-integral stoichiometric coefficients, oracle only (the Lean model's coefficients are natural numbers):
        (a) in products / inactive parts (orders integral, the rate stays a polynomial);
        (b) rational ACTIVE orders p/q in `reac` (alone, or with a compensating inactive reactant as in
            H2 + 1/2 Br2 (+ 1/2 Br2) -> 2 HBr): the rate is a polynomial in y^(1/q); the oracle substitutes y = z^q, and the
            numeric callbacks are evaluated at positive perfect-q-th-power points."""
        from math import lcm
        for _ in range(50):
            c = self._gen_one(rng, tier)
            if c['rxns'] and clean(c):
                break
        c['op'] = None
        c['kind'] = 'fractional'
        c['coef_type'] = rng.choice(['Fraction', 'float'])
        if c['num'] == 'int':
            c['num'] = 'Fraction'
        vals = [[1, 2], [3, 2], [5, 2], [1, 4]] + ([[1, 3], [2, 3]] if c['coef_type'] == 'Fraction' else [])
        orders = rng.random() < 0.55 and any(s['reac'] for s in c['rxns'])
        done = False
        if orders:
            q = 1
            for s in c['rxns']:
                for kv in s['reac']:
                    if rng.random() < 0.5 or not done:
                        kv[1] = rng.choice(vals)
                        q = lcm(q, kg.frac(kv[1]).denominator)
                        done = True
                        if rng.random() < 0.4:                           # compensating inactive reactant: total order integral
                            comp = rat_json(1 - (kg.frac(kv[1]) % 1))
                            ir = dict((k, v) for k, v in s['inact_reac'])
                            ir[kv[0]] = comp
                            s['inact_reac'] = [[k, v] for k, v in ir.items()]
            # positive perfect q-th powers for every concentration
            pt = dict((k, v) for k, v in c['point'])
            for k in c['subst']:
                pt[k] = rat_json(Fraction(rng.randint(1, 3), rng.randint(1, 2)) ** q)
            c['point'] = [[k, v] for k, v in pt.items()]
            c['orders'] = True
        for s in c['rxns']:
            for part_ in ('prod', 'inact_prod') + (() if orders else ('inact_reac',)):
                for kv in s[part_]:
                    if rng.random() < (0.2 if orders else 0.5):
                        kv[1] = rng.choice(vals)
                        done = True
        if not done:
            s = rng.choice(c['rxns'])
            if not s['prod']:
                s['prod'] = [[rng.choice(c['subst']), [1, 2]]]
            else:
                s['prod'][0][1] = [1, 2]
        return c

    def _rand_param(self, rng, num, builder_mix, used):
        kind = rng.choice(['raw', 'ma', 'named', 'named', 'key', 'sym'])
        p = {'kind': kind}
        if kind in ('raw', 'ma', 'named'):
            k = kg.rand_rat(rng, num)
            p['k'] = k if kg.frac(k) != 0 else 1
        if kind in ('named', 'key', 'sym'):
            free = [k for k in KEYPOOL if k not in used]
            p['uk'] = rng.choice(free) if free else 'q%d' % len(used)
            used.append(p['uk'])
        return p

    def _history(self, rng, tier):
        """build / mutate the public state of the SAME objects / build again, with every entry point and configuration"""
        num = rng.choice(['Fraction', 'Rational', 'int', 'Fraction'])
        sysd = kg.rand_system(rng, tier, num=num, smax=4, rmax=3)
        while not sysd['rxns']:
            sysd = kg.rand_system(rng, tier, num=num, smax=4, rmax=3)
        part = [k for k in sysd['subst'] if any(k in kg.spec_keys(r) for r in sysd['rxns'])]
        subst = part or sysd['subst'][:1]
        used = []
        rxns = []
        for r in sysd['rxns']:
            r = dict(r, ordered=True)
            r['param'] = self._rand_param(rng, num, None, used)
            rxns.append(r)
        state = {'subst': list(subst), 'rxns': [dict(r) for r in rxns]}
        cmax = 3

        def build():
            st = {'do': 'build', 'builder': rng.choice(['get', 'get', 'create']), 'cstr': rng.random() < 0.4,
                  'include_params': rng.random() < 0.5, 'subs': [], 'param_exprs': []}
            uks = list(dict.fromkeys(r['param']['uk'] for r in state['rxns'] if 'uk' in r['param']))
            valueless = list(dict.fromkeys(r['param']['uk'] for r in state['rxns'] if r['param']['kind'] in ('key', 'sym')))
            symk = set(r['param']['uk'] for r in state['rxns'] if r['param']['kind'] == 'sym')
            if st['builder'] == 'get':
                if st['include_params'] and rng.random() < 0.9:
                    st['subs'] = [[k, kg.rand_rat(rng, num)] for k in valueless]
                for k in uks + (['feedratio'] if st['cstr'] else []):
                    if rng.random() < 0.15 and k not in [x[0] for x in st['subs']]:
                        st['subs'].append([k, kg.rand_rat(rng, num)])
            else:
                st['param_exprs'] = [[k, kg.rand_rat(rng, num)] for k in uks if k not in symk and rng.random() < 0.15]
            syms = list(state['subst']) + KEYPOOL + ['q%d' % i for i in range(12)] + ['feedratio'] + ['fc_' + s for s in state['subst']]
            st['point'] = [[k, rat_json(Fraction(rng.randint(-3, 9), rng.choice([1, 1, 2, 3])))] for k in dict.fromkeys(syms)]
            return st

        steps = [build()]
        for _ in range(rng.randint(1, 4)):
            nr = len(state['rxns'])
            m = rng.random()
            if m < 0.4:
                st = {'do': 'set_param', 'i': rng.randrange(nr)}
                old = state['rxns'][st['i']]['param']
                if rng.random() < 0.6 and old['kind'] in ('raw', 'ma', 'named'):          # a parameter study: same kind, new constant
                    st['param'] = dict(old, k=rat_json(kg.frac(old['k']) + rng.randint(1, 5)))
                else:
                    st['param'] = self._rand_param(rng, num, None, used)
            elif m < 0.55:
                st = {'do': 'replace_rxn', 'i': rng.randrange(nr), 'rxn': dict(kg.rand_reaction(rng, state['subst'], num, cmax), ordered=True)}
                st['rxn']['param'] = self._rand_param(rng, num, None, used)
            elif m < 0.7:
                st = {'do': 'append', 'rxn': dict(kg.rand_reaction(rng, state['subst'], num, cmax), ordered=True), 'via': rng.choice(['list', 'iadd'])}
                if rng.random() < 0.4:                       # derived from a live reaction with Reaction.copy(reac=..., ...)
                    j = rng.randrange(nr)
                    st['rxn']['from_copy'] = j
                    st['rxn']['param'] = dict(state['rxns'][j]['param'])
                else:
                    st['rxn']['param'] = self._rand_param(rng, num, None, used)
            elif m < 0.76 and nr > 1:
                st = {'do': 'delete', 'i': rng.randrange(nr)}
            elif m < 0.88:
                st = {'do': 'sort_substances'}
            elif nr > 1:
                perm = list(range(nr))
                rng.shuffle(perm)
                st = {'do': 'permute_rxns', 'perm': perm}
            else:
                st = {'do': 'sort_substances'}
            apply_pure(state, st)
            steps.append(st)
            for _ in range(rng.randint(1, 2)):
                steps.append(build())
        return {'op': 'history', 'subst': list(subst), 'rxns': rxns, 'num': num, 'steps': steps, 'alias': self._alias(rng, list(subst))}

    def _gen_one(self, rng, tier):
        smax = 5 if tier == 'quick' else 8
        rmax = 5 if tier == 'quick' else 9
        num = rng.choice(['Fraction', 'Rational', 'int', 'Fraction'])
        sysd = kg.rand_system(rng, tier, num=num, smax=smax, rmax=rmax)
        while not sysd['rxns'] and rng.random() < 0.8:               # few systems without reactions (TypeError / KeyError)
            sysd = kg.rand_system(rng, tier, num=num, smax=smax, rmax=rmax)
        subst, rxns = list(sysd['subst']), [dict(r, ordered=True) for r in sysd['rxns']]
        c = {'op': 'build', 'subst': subst, 'rxns': rxns, 'num': num}
        c['builder'] = rng.choice(['get', 'get', 'get', 'create', 'create'])
        c['cstr'] = rng.random() < 0.35
        # rate parameters
        shared = rng.random() < 0.15
        pool = list(KEYPOOL)
        rng.shuffle(pool)
        used = []
        weights = ['raw', 'ma', 'named', 'named', 'key', 'sym'] if c['builder'] == 'get' else ['ma', 'named', 'named', 'key', 'key', 'sym', 'raw'][:6 + (rng.random() < 0.1)]
        for s in rxns:
            kind = rng.choice(weights)
            k = s['param'] if kg.frac(s['param']) != 0 or rng.random() < 0.3 else 1
            p = {'kind': kind}
            if kind in ('raw', 'ma', 'named'):
                p['k'] = k
            if kind in ('named', 'key', 'sym'):
                if shared and used and rng.random() < 0.5:
                    p['uk'] = rng.choice(used)
                else:
                    p['uk'] = pool.pop() if pool else 'q%d' % len(used)
                used.append(p['uk'])
            s['param'] = p
        # leave-out / clash streams
        part = set(k for s in rxns for k in kg.spec_keys(s))
        if not c['cstr'] and rng.random() < 0.85:
            c['subst'] = subst = [s for s in subst if s in part] or subst[:1]
        r = rng.random()
        if r < 0.03 and used and subst:
            subst[rng.randrange(len(subst))] = rng.choice(used)            # a substance named like a parameter
            c['subst'] = subst = list(dict.fromkeys(subst))
        elif r < 0.05 and subst:
            new = rng.choice(['time', 't', 'x'] if c['builder'] == 'get' else ['t', 'x'])
            old = subst[rng.randrange(len(subst))]
            if new not in subst:
                c['subst'] = subst = [new if s == old else s for s in subst]
                for s in rxns:
                    for part_ in PARTS:
                        s[part_] = [[new if k == old else k, v] for k, v in s[part_]]
        elif r < 0.07 and rxns:
            rng.choice(rxns)['reac'].append(['Q_unknown', 1])                # a species that is no substance (checks=())
        # configuration
        c['include_params'] = rng.random() < 0.45
        c['subs'] = []
        c['param_exprs'] = []
        uks = list(dict.fromkeys(used))
        valueless = list(dict.fromkeys(s['param']['uk'] for s in rxns if s['param']['kind'] in ('key', 'sym')))
        if c['builder'] == 'get':
            cand = list(uks)
            if c['cstr']:
                cand += ['feedratio'] + ['fc_' + s for s in subst[:2]]
            if c['include_params'] and rng.random() < 0.85:
                c['subs'] = [[k, kg.rand_rat(rng, num)] for k in valueless]       # otherwise the builder must refuse (KeyError)
            for k in cand:
                if rng.random() < 0.2 and k not in [x[0] for x in c['subs']]:
                    c['subs'].append([k, kg.rand_rat(rng, num)])
            if rng.random() < 0.04:
                c['subs'].append(['zz_unknown', 3])
            rng.shuffle(c['subs'])
        else:
            symk = set(s['param']['uk'] for s in rxns if s['param']['kind'] == 'sym')
            for k in uks:
                if rng.random() < 0.2 and k not in symk and k not in subst:
                    c['param_exprs'].append([k, kg.rand_rat(rng, num)])
        # evaluation point: every symbol that can occur
        syms = list(subst) + uks + ['feedratio'] + ['fc_' + s for s in subst]
        c['point'] = [[k, rat_json(Fraction(rng.randint(-3, 9), rng.choice([1, 1, 2, 3])))] for k in dict.fromkeys(syms)]
        c['alias'] = self._alias(rng, subst)
        self._share(rng, rxns)
        for srx in rxns:                                     # a parameter object that converts itself (`as_RateExpr`)
            if srx['param']['kind'] == 'raw' and rng.random() < 0.25:
                srx['param'] = dict(srx['param'], conv=True)
        if c['builder'] == 'get':
            self._active_and_consts(rng, c)
        elif rng.random() < 0.22:
            self._user_symbols(rng, c)
        return c

    def _active_and_consts(self, rng, c):
        """Expr-valued (active) substitutions built from Constant / Symbol / + / *, and a `constants=` object"""
        num, subst = c['num'], c['subst']
        cs = (['feedratio'] + ['fc_' + s for s in subst]) if c['cstr'] else []
        uks = list(dict.fromkeys(s['param']['uk'] for s in c['rxns'] if 'uk' in s['param']))
        if rng.random() < 0.3 and (uks or cs):
            targets = rng.sample(uks + cs[:2], min(len(uks + cs[:2]), rng.randint(1, 2)))
            act, fresh = [], ['q1', 'q2', 'w']
            for t in targets:
                pool = [{'c': kg.rand_rat(rng, num)}]
                if not c['include_params'] or rng.random() < 0.15:
                    pool += [{'s': rng.choice(fresh)}] * 2
                pool += [{'s': a[0]} for a in act]                                   # an earlier active key
                if c['cstr']:
                    pool.append({'s': rng.choice(cs)})
                if subst and (c['include_params'] or rng.random() < 0.1):
                    pool.append({'s': rng.choice(subst)})                            # a concentration-dependent "constant"
                if uks and rng.random() < 0.3:
                    pool.append({'s': rng.choice(uks)})
                if rng.random() < 0.03:
                    pool.append({'s': 'undefined_symbol'})

                def expr(depth):
                    if depth == 0 or rng.random() < 0.35:
                        return rng.choice(pool)
                    return {rng.choice(['add', 'mul']): [expr(depth - 1), expr(depth - 1)]}
                act.append([t, expr(2)])
            c['subs'] = [kv for kv in c['subs'] if kv[0] not in targets]
            c['active'] = act
            c['point'] = c['point'] + [[k, rat_json(Fraction(rng.randint(-3, 9), rng.choice([1, 2])))] for k in fresh]
        if c['cstr'] and rng.random() < 0.3:
            keys = rng.sample(cs, rng.randint(1, min(3, len(cs)))) + (['not_a_parameter'] if rng.random() < 0.3 else [])
            c['consts'] = [[k, kg.rand_rat(rng, num)] for k in keys]

    def _user_symbols(self, rng, c):
        """_create_odesys with user-supplied substance_symbols / parameter_symbols (well-formed and malformed)"""
        subst = c['subst']
        cs = (['feedratio'] + ['fc_' + s for s in subst]) if c['cstr'] else []
        pe = [k for k, _ in c['param_exprs']]
        need = list(dict.fromkeys([s['param']['uk'] for s in c['rxns'] if 'uk' in s['param'] and
                                   not (s['param']['kind'] == 'key' and s['param']['uk'] in pe)] + cs))
        r = rng.random()
        if r < 0.3:
            ks = list(subst)                                                         # a PLAIN dict: any insertion order is fine
            rng.shuffle(ks)
            m = rng.random()
            if m < 0.12 and ks:
                del ks[rng.randrange(len(ks))]                                       # a substance without symbol: KeyError
            elif m < 0.25:
                ks.insert(rng.randrange(len(ks) + 1), 'no_substance')
            c['subst_symbols_plain'] = ks
        elif r < 0.55:
            ks = list(subst)
            if rng.random() < 0.4 and len(ks) > 1:
                rng.shuffle(ks)                                                      # wrong order (or by chance the right one)
            elif rng.random() < 0.15:
                ks = ks[:-1]
            c['subst_symbols'] = ks
        if r > 0.3:
            keys = list(need)
            m = rng.random()
            if m < 0.2 and keys:
                del keys[rng.randrange(len(keys))]                                   # a needed key is missing
            elif m < 0.4:
                keys.append('unused_parameter')
            rng.shuffle(keys)
            c['param_symbols'] = {'ordered': rng.random() < 0.8, 'keys': keys}

    def _alias(self, rng, subst):
        """a fraction of the substances is registered under a key that is not its Substance.name (names may even repeat or
        coincide with another key: only the keys matter)"""
        if rng.random() > 0.3:
            return []
        return [[k, rng.choice(['name_of_' + k, 'water', subst[0], 'k1', 'X'])] for k in subst if rng.random() < 0.6]

    # ---------------------------------------------------------------------------------------
    def model_case(self, c):
        if c.get('op') == 'history':
            state = {'subst': list(c['subst']), 'rxns': [dict(r) for r in c['rxns']]}
            msteps = []
            for st in c['steps']:
                if st['do'] == 'build':
                    msteps.append(self.model_case(single_of(state, st, c['num'])))
                else:
                    apply_pure(state, st)
            return {'op': 'history', 'steps': msteps, 'orig': c}
        if c.get('op') != 'build':
            return None
        m = dict(c)
        rx = []
        for s in c['rxns']:
            rb = kg.readback(mk_reaction(s, c['num']), s)          # the dictionaries as chempy stores them
            rb['param'] = s['param']
            rx.append(rb)
        m['rxns'] = rx
        m['py_nums'] = c['num'] != 'Rational'
        return m

    def impl(self, c, rsys=None):
        if c.get('op') == 'history':
            o = c['orig']
            live = mk_rsys(o)                                  # ONE system object for the whole history (o carries `alias`)
            outs, j = [], 0
            for st in o['steps']:
                if st['do'] == 'build':
                    outs.append(self.impl(c['steps'][j], live))
                    j += 1
                else:
                    live = apply_real(live, st, o['num'])
            return json.dumps(outs)
        try:
            odesys, extra = run_builder(c, rsys)
        except Exception as e:
            return exc_name(e)
        m = sym_names(odesys)
        pt = point_of(c)
        out = {'names': list(odesys.names), 'param_names': list(odesys.param_names),
               'exprs': [canon_poly(e, m) for e in odesys.exprs],
               'f': eval_cb(odesys.f_cb, odesys, pt)}
        if c['builder'] == 'get':
            out['param_keys'] = list(extra['param_keys'])
            out['unique'] = [[k, None if v is None else show_rat(kg.to_frac(v))] for k, v in extra['unique'].items()]
            out['r'] = eval_cb(extra['rate_exprs_cb'], odesys, pt)
        return json.dumps(out)

    def same(self, c, io, mo):
        if c.get('op') == 'history':
            a, b = json.loads(io), json.loads(mo)
            return len(a) == len(b) == len(c['steps']) and all(self.same(m, x, y) for m, x, y in zip(c['steps'], a, b))
        if not io.startswith('{') or not mo.startswith('{'):
            return io == mo
        a, b = json.loads(io), json.loads(mo)
        if a['names'] != b['names']:
            return False
        if c['builder'] == 'get':
            npk = len(b['param_keys'])
            if sorted(a['param_keys']) != sorted(b['param_keys']) or a['unique'] != b['unique']:
                return False
            if sorted(a['param_names'][:npk]) != sorted(b['param_names'][:npk]) or a['param_names'][npk:] != b['param_names'][npk:]:
                return False
            if len(a['r']) != len(b['r']) or not all(fclose(x, Fraction(y), poly_scale(p, point_of(c)))
                                                     for x, y, p in zip(a['r'], b['r'], b['rates'])):
                return False
            if not all(poly_wellformed(p) for p in b['rates']):
                return False
        elif a['param_names'] != b['param_names']:
            return False
        if not all(poly_wellformed(p) for p in b['exprs']):
            return False
        if a['exprs'] != [sort_poly(p) for p in b['exprs']]:
            return False
        return len(a['f']) == len(b['f']) and all(fclose(x, Fraction(y), poly_scale(p, point_of(c)))
                                                  for x, y, p in zip(a['f'], b['f'], b['exprs']))

    # ---------------------------------------------------------------------------------------
    def oracle(self, c, rsys=None):
        """N^T r with hand-made monomials (sympy) against odesys.exprs; names; parameter names; binding; the other builder.
        History: after every mutation of the SAME objects, every build must be N^T r of the objects' CURRENT public state."""
        import sympy
        if c.get('op') == 'history':
            live = mk_rsys(c)
            state = {'subst': list(c['subst']), 'rxns': [dict(r) for r in c['rxns']]}
            for n, st in enumerate(c['steps']):
                if st['do'] != 'build':
                    live = apply_real(live, st, c['num'])
                    apply_pure(state, st)
                    continue
                where = 'step %d (%s build after %s)' % (n, st['builder'], [x['do'] for x in c['steps'][:n] if x['do'] != 'build'])
                if not same_state(state, live_state(live)):
                    return where + ': the public state of the system is not what the mutations should have produced'
                f = self.oracle(single_of(state, st, c['num']), live)
                if f is not None:
                    return where + ': ' + f + ' [expected from the CURRENT reactions, constants and substance order]'
            return None
        if c.get('kind') == 'fractional' and c.get('op') is None:
            c = dict(c, op='build', rxns=[dict(s, **{p_: [[k, (lambda q: int(q) if q.denominator == 1 else q)(kg.frac(v) if isinstance(v, list) else Fraction(v))]
                                                            for k, v in s[p_]] for p_ in PARTS}) for s in c['rxns']])
        if c.get('kind') == 'pk' and c.get('op') is None:
            return self._oracle_pk(dict(c, op='build'), mk_rsys(c))
        if c.get('op') != 'build':
            return None
        rsys = rsys if rsys is not None else mk_rsys(c)
        if c['builder'] == 'get' and (c.get('active') or c.get('consts')):
            return self._oracle_general(c, rsys)
        if c['builder'] == 'create' and (c.get('subst_symbols') is not None or c.get('param_symbols') is not None or
                                         c.get('subst_symbols_plain') is not None):
            return self._oracle_usersyms(c, rsys)
        want_coeffs = expected_free(c)
        try:
            odesys, extra = run_builder(c, rsys)
        except Exception as e:
            if clean(c) and want_coeffs is not None:
                return '%s refused a well-formed system: %s: %s' % (c['builder'], exc_name(e), str(e)[:100])
            return None
        if want_coeffs is None:
            return '%s accepted a system with a rate constant that has no value and no symbol' % c['builder'] \
                if c['builder'] == 'get' else None
        if c['builder'] == 'create' and set(c['subst']) & set(
                [s['param'].get('uk') for s in c['rxns']] + [k for k, _ in c['param_exprs']]):
            # a substance named like a parameter key (known finding `_create_odesys:substance-named-like-parameter-key`):
            # the kinetic model keeps the concentration and the parameter apart; the real build has ONE sympy symbol for both
            if want_coeffs is None or not participates(c) <= set(c['subst']) or len(odesys.exprs) != len(c['subst']):
                return None
            clashing = set(c['subst']) & set([s['param'].get('uk') for s in c['rxns']] + [k for k, _ in c['param_exprs']])
            pe1 = dict((k, kg.frac(v)) for k, v in c['param_exprs'])
            dep = dict(zip(odesys.names, odesys.dep))
            par = dict(zip(odesys.param_names, odesys.params))
            par.update({k: sympy.Symbol('parameter_' + k) for k in clashing})

            def conc(n):
                return dep[n]

            def coef(k):
                if not isinstance(k, str):
                    return sympy.Rational(k.numerator, k.denominator)
                return sympy.Rational(pe1[k].numerator, pe1[k].denominator) if k in pe1 else par[k]
            try:
                for i, sk in enumerate(c['subst']):
                    tot = sympy.Integer(0)
                    for srx, k in zip(c['rxns'], want_coeffs):
                        r = coef(k)
                        for j, nu in srx['reac']:
                            r = r * conc(j) ** nu
                        tot = tot + kg.net_of(srx, sk) * r
                    if c['cstr']:
                        tot = tot + par['feedratio'] * (par['fc_' + sk] - conc(sk))
                    if not poly_equal(odesys.exprs[i], tot):
                        return ('d[%s]/dt = %s but N^T r = %s with the parameter(s) %s kept apart from the concentration(s) of the same name'
                                % (sk, odesys.exprs[i], sympy.expand(tot), sorted(clashing)))
            except KeyError:
                return None
            return None
        if set(odesys.names) & set(odesys.param_names):
            return None if c['builder'] == 'create' else 'a substance and a parameter share the name %s' % (set(odesys.names) & set(odesys.param_names))
        if list(odesys.names) != list(c['subst']):
            return 'names %s differ from the substance order %s' % (list(odesys.names), c['subst'])
        if len(odesys.exprs) != len(c['subst']):
            return '%d expressions for %d substances' % (len(odesys.exprs), len(c['subst']))
        if not participates(c) <= set(c['subst']):
            return None
        # --- parameter names: exactly the keys that stay free, no repetition
        free = [k for k in want_coeffs if isinstance(k, str)]
        cs = ['feedratio'] + ['fc_' + s for s in c['subst']] if c['cstr'] else []
        if c['builder'] == 'get':
            sb = [k for k, _ in c['subs']]
            want_names = [k for k in cs if k not in sb]
            want_set = set(want_names) | set(free)
            if set(extra['param_keys']) != set(want_names):
                return 'param_keys %s, expected %s' % (extra['param_keys'], want_names)
            # registration order of the unique keys
            reg = []
            if not c['include_params']:
                for s in c['rxns']:
                    p = s['param']
                    if p['kind'] in ('named', 'key', 'sym') and p['uk'] not in sb and p['uk'] not in reg:
                        reg.append(p['uk'])
            if list(extra['unique']) != reg:
                return "extra['unique'] keys %s, registration order %s" % (list(extra['unique']), reg)
            if list(odesys.param_names)[len(want_names):] != [k for k in reg if k not in want_names]:
                return 'param_names %s do not end with the registered keys %s' % (list(odesys.param_names), reg)
        else:
            pe = [k for k, _ in c['param_exprs']]
            want_set = set(cs) | set(s['param']['uk'] for s in c['rxns'] if s['param']['kind'] in ('named', 'sym')) | \
                set(s['param']['uk'] for s in c['rxns'] if s['param']['kind'] == 'key' and s['param']['uk'] not in pe)
        if set(odesys.param_names) != want_set or len(set(odesys.param_names)) != len(odesys.param_names):
            return 'param_names %s, expected the set %s' % (list(odesys.param_names), sorted(want_set))
        if c['builder'] == 'create':
            # deterministic here (no Python set involved): unique keys in reaction order, then the CSTR keys
            order = [s['param']['uk'] for s in c['rxns'] if 'uk' in s['param'] and s['param']['uk'] in want_set] + cs
            if list(odesys.param_names) != list(dict.fromkeys(order)):
                return 'param_names %s are not in registration order %s' % (list(odesys.param_names), list(dict.fromkeys(order)))
        # --- the polynomial identity
        symof = dict(zip(odesys.param_names, odesys.params))
        symof.update(zip(odesys.names, odesys.dep))
        fixed = dict((k, kg.frac(v)) for k, v in (c['subs'] if c['builder'] == 'get' else []))

        def value_of(name):
            if name in fixed and name not in c['subst']:
                return sympy.Rational(fixed[name].numerator, fixed[name].denominator)
            return symof[name]

        def rat(q):
            return sympy.Rational(q.numerator, q.denominator)
        coeffs = [k if isinstance(k, str) else rat(k) for k in want_coeffs]
        try:
            want, want_rates = expected_rhs(c, coeffs, value_of)
        except KeyError as e:
            return 'no symbol for %s among names %s and param_names %s' % (e, list(odesys.names), list(odesys.param_names))
        for sk, got, w in zip(c['subst'], odesys.exprs, want):
            if not poly_equal(got, w):
                return 'd[%s]/dt = %s but N^T r = %s' % (sk, got, sympy.expand(w))
        # --- numeric callbacks at a rational point
        pt = point_of(c)

        def num_of(name):
            if name in fixed and name not in c['subst']:
                return fixed[name]
            return pt.get(name, Fraction(0))
        fwant, rwant = expected_rhs(c, [k if isinstance(k, str) else k for k in want_coeffs], num_of)
        fsc, rsc = expected_scale(c, want_coeffs, num_of)
        fgot = eval_cb(odesys.f_cb, odesys, pt)
        if len(fgot) != len(fwant) or not all(fclose(a, b, sc) for a, b, sc in zip(fgot, fwant, fsc)):
            return 'f_cb at %s = %s, N^T r = %s' % (c['point'], fgot, [str(x) for x in fwant])
        if c['builder'] == 'get':
            rgot = eval_cb(extra['rate_exprs_cb'], odesys, pt)
            if len(rgot) != len(rwant) or not all(fclose(a, b, sc) for a, b, sc in zip(rgot, rwant, rsc)):
                return 'rate_exprs_cb at %s = %s, k*prod(c^nu) = %s' % (c['point'], rgot, [str(x) for x in rwant])
        # --- binding the exposed parameters to the stored constants = the inlined build
        if c['builder'] == 'get' and not c['include_params']:
            uniq = extra['unique']
            stored = {}
            for s in c['rxns']:
                p = s['param']
                if p['kind'] == 'named':
                    stored.setdefault(p['uk'], set()).add(kg.frac(p['k']))
            for k, v in uniq.items():
                if k in stored and len(stored[k]) == 1 and not shared_inconsistent(c):
                    if v is None or kg.to_frac(v) != next(iter(stored[k])):
                        return "extra['unique'][%r] = %s, stored constant %s" % (k, v, next(iter(stored[k])))
            if not shared_inconsistent(c):
                bind = {symof[k]: rat(kg.to_frac(v)) for k, v in uniq.items() if v is not None}
                inl_coeffs = expected_free(c, include_params=True,
                                           subs=c['subs'] + [[k, 0] for k in uniq if uniq[k] is None])
                # value-less keys stay symbols on both sides
                inl = [symof[s['param']['uk']] if s['param']['kind'] in ('key', 'sym') and s['param']['uk'] in uniq else rat(q)
                       for s, q in zip(c['rxns'], inl_coeffs)]
                w2, _ = expected_rhs(c, inl, value_of)
                for sk, got, w in zip(c['subst'], odesys.exprs, w2):
                    if not poly_equal(got.subs(bind), w):
                        return 'binding the parameters to their stored constants gives d[%s]/dt = %s, inlined: %s' % (
                            sk, sympy.expand(got.subs(bind)), sympy.expand(w))
                # and the real inlined build, when it is accepted
                vl = [k for k in uniq if uniq[k] is None]
                subs2 = c['subs'] + [[k, pt_v] for k, pt_v in ((k, rat_json(pt.get(k, Fraction(1)))) for k in vl)]
                try:
                    o2, e2 = run_builder(c, rsys, include_params=True, subs=subs2)
                except Exception as e:
                    if py_number_entry(dict(c, include_params=True, subs=subs2)):
                        return None                       # a constant right-hand side of Python numbers: pyodesys refuses it
                    return 'include_params=True refused what include_params=False accepted: %s' % exc_name(e)
                bind2 = dict(bind)
                bind2.update({symof[k]: rat(pt.get(k, Fraction(1))) for k in vl})
                ren = dict(zip(o2.dep, odesys.dep))
                ren.update({p2: symof[n] for p2, n in zip(o2.params, o2.param_names) if n in symof})
                for sk, got, g2 in zip(c['subst'], odesys.exprs, o2.exprs):
                    if not poly_equal(got.subs(bind2), g2.subs(ren)):
                        return 'free build bound to the stored constants differs from the include_params=True build for %s' % sk
        # --- the other builder
        if clean(c) and not c['subs'] and not c['param_exprs'] and c['builder'] == 'get' and not c['include_params']:
            alt = dict(c, builder='create')
            if clean(alt):
                try:
                    o3, _ = run_builder(alt, rsys)
                except Exception as e:
                    return '_create_odesys refused what get_odesys accepted: %s: %s' % (exc_name(e), str(e)[:80])
                if list(o3.names) != list(odesys.names) or set(o3.param_names) != set(odesys.param_names):
                    return 'builders disagree on names: %s/%s vs %s/%s' % (o3.names, o3.param_names, odesys.names, odesys.param_names)
                ren = dict(zip(o3.dep, odesys.dep))
                ren.update({p3: symof[n] for p3, n in zip(o3.params, o3.param_names)})
                for sk, g1, g3 in zip(c['subst'], odesys.exprs, o3.exprs):
                    if not poly_equal(g1, g3.subs(ren, simultaneous=True)):
                        return 'builders disagree on d[%s]/dt: %s vs %s' % (sk, g1, g3)
        return None

    # ---- shared by the two oracles below --------------------------------------------------------------
    def _check_built(self, c, odesys, extra, look, coeffs, what):
        """names, expressions (symbolically) and the numeric callbacks against N^T r; `look(name)` = sympy value of a name in
        `variables`, `coeffs` = sympy value of each reaction's rate constant"""
        import sympy
        if list(odesys.names) != list(c['subst']):
            return '%s: names %s differ from the substance order %s' % (what, list(odesys.names), c['subst'])
        if len(odesys.exprs) != len(c['subst']):
            return '%s: %d expressions for %d substances' % (what, len(odesys.exprs), len(c['subst']))
        rates = []
        for srx, k in zip(c['rxns'], coeffs):
            r = k
            for j, nu in srx['reac']:
                r = r * look(j) ** nu
            rates.append(r)
        want = []
        for sk in c['subst']:
            tot = sympy.Integer(0)
            for srx, r in zip(c['rxns'], rates):
                tot = tot + kg.net_of(srx, sk) * r
            if c['cstr']:
                tot = tot + look('feedratio') * (look('fc_' + sk) - look(sk))
            want.append(tot)
        for sk, got, w in zip(c['subst'], odesys.exprs, want):
            if not poly_equal(got, w):
                return '%s: d[%s]/dt = %s but N^T r = %s' % (what, sk, got, sympy.expand(w))
        # numeric callbacks at the rational point
        pt = point_of(c)
        symof = dict(zip(odesys.param_names, odesys.params))
        symof.update(zip(odesys.names, odesys.dep))
        at = {sy: sympy.Rational(pt.get(n, Fraction(0)).numerator, pt.get(n, Fraction(0)).denominator) for n, sy in symof.items()}

        def num(e):
            e = sympy.expand(sympy.sympify(e))
            val = e.subs(at)
            scale = sum(abs(t.subs(at)) for t in sympy.Add.make_args(e))
            return val, scale
        fgot = eval_cb(odesys.f_cb, odesys, pt)
        for sk, g, w in zip(c['subst'], fgot, want):
            v, sc = num(w)
            if not fclose(g, float(v), float(sc)):
                return '%s: f_cb gives d[%s]/dt = %s at %s, N^T r = %s' % (what, sk, g, c['point'], v)
        if extra is not None and 'rate_exprs_cb' in extra:
            rgot = eval_cb(extra['rate_exprs_cb'], odesys, pt)
            if len(rgot) != len(rates):
                return '%s: %d rates for %d reactions' % (what, len(rgot), len(rates))
            for i, (g, w) in enumerate(zip(rgot, rates)):
                v, sc = num(w)
                if not fclose(g, float(v), float(sc)):
                    return '%s: rate_exprs_cb[%d] = %s at %s, k*prod(c^nu) = %s' % (what, i, g, c['point'], v)
        return None

    def _oracle_general(self, c, rsys):
        """get_odesys with Expr-valued (active) substitutions and/or `constants=`: own expectation from the case.
        Order of events in the real builder that the expectation follows: keys registered by the active substitutions (left to
        right), then by the reactions; `variables` = y, p, then each active expression evaluated on what is defined so far,
        then the passive values (numeric substitutions, constants)."""
        import sympy
        names = list(c['subst'])
        passive = OrderedDict((k, kg.frac(v)) for k, v in c['subs'])
        act = [(k, e) for k, e in (c.get('active') or [])]
        consts = dict((k, kg.frac(v)) for k, v in (c.get('consts') or []))
        sub_keys = set(passive) | set(k for k, _ in act)
        cs = (['feedratio'] + ['fc_' + x for x in names]) if c['cstr'] else []
        uks = [srx['param']['uk'] for srx in c['rxns'] if 'uk' in srx['param']]
        try:
            odesys, extra = run_builder(c, rsys)
            err = None
        except Exception as e:
            odesys, extra, err = None, None, e
        if not c['rxns'] or 'time' in set(names) | sub_keys | set(uks) or not participates(c) <= set(names):
            return None
        if any(k not in cs and k not in uks for k in sub_keys):
            return None if err is not None else 'get_odesys accepted a substitution key that occurs in no rate expression'
        used_consts = {k: consts[k] for k in cs if k not in sub_keys and k in consts}
        want_pk = [k for k in cs if k not in sub_keys and k not in consts]
        reg = []
        if not c['include_params']:
            for _, e in act:
                for sy in pexpr_syms(e):
                    if sy not in sub_keys and sy not in reg:
                        reg.append(sy)
            for srx in c['rxns']:
                p = srx['param']
                if 'uk' in p and p['uk'] not in sub_keys and p['uk'] not in reg:
                    reg.append(p['uk'])
        want_params = want_pk + [k for k in reg if k not in want_pk]
        capture = set(names) & (set(uks) | sub_keys | set(cs))           # the known finding: one dict for all name spaces
        clash = set(names) & set(want_params)
        defined0 = set(names) | set(want_params)
        P = {}                                                          # placeholder symbols by name

        def ph(n):
            return P.setdefault(n, sympy.Symbol('ph_' + n))
        vals, undefined = {}, False
        for k, e in act:
            def look_now(sy):
                if sy in vals:
                    return vals[sy]
                if sy in defined0:
                    return ph(sy)
                raise KeyError(sy)
            try:
                vals[k] = pexpr_value(e, look_now)
            except KeyError:
                undefined = True
                break
        fixed = dict(passive)
        fixed.update(used_consts)

        def look(n):
            if n in fixed:
                return sympy.Rational(fixed[n].numerator, fixed[n].denominator)
            if n in vals:
                return vals[n]
            if n in defined0:
                return ph(n)
            raise KeyError(n)
        coeffs = []
        if not undefined:
            for srx in c['rxns']:
                p = srx['param']
                try:
                    if p['kind'] in ('raw', 'ma'):
                        q = kg.frac(p['k'])
                        coeffs.append(sympy.Rational(q.numerator, q.denominator))
                    elif p['kind'] == 'named':
                        try:
                            coeffs.append(look(p['uk']))
                        except KeyError:
                            q = kg.frac(p['k'])
                            coeffs.append(sympy.Rational(q.numerator, q.denominator))
                    else:
                        coeffs.append(look(p['uk']))
                except KeyError:
                    undefined = True
        must_accept = (not undefined and not clash and not capture and (c['cstr'] or participates(c) == set(names)) and
                       (c['num'] == 'Rational' or c['cstr']) and not ({'t', 'x'} & (set(names) | set(want_params))))
        if err is not None:
            if must_accept:
                return 'get_odesys refused a well-formed system with active substitutions / constants: %s: %s' % (exc_name(err), str(err)[:100])
            return None
        if undefined or clash or capture:
            return None                                   # accepted although a name is captured / undefined: the known finding's territory
        # ---- names of the parameters
        if set(extra['param_keys']) != set(want_pk):
            return 'param_keys %s, expected %s (substituted: %s, from constants: %s)' % (extra['param_keys'], want_pk, sorted(sub_keys), sorted(used_consts))
        if list(extra['unique']) != reg:
            return "extra['unique'] keys %s, registration order %s" % (list(extra['unique']), reg)
        if set(odesys.param_names) != set(want_params) or list(odesys.param_names)[len(want_pk):] != want_params[len(want_pk):]:
            return 'param_names %s, expected %s' % (list(odesys.param_names), want_params)
        stored = {}
        for srx in c['rxns']:
            if srx['param']['kind'] == 'named':
                stored.setdefault(srx['param']['uk'], set()).add(kg.frac(srx['param']['k']))
        for k, v in extra['unique'].items():
            if k in stored and len(stored[k]) == 1 and not shared_inconsistent(c):
                if v is None or kg.to_frac(v) != next(iter(stored[k])):
                    return "extra['unique'][%r] = %s, stored constant %s" % (k, v, next(iter(stored[k])))
        symof = dict(zip(odesys.param_names, odesys.params))
        symof.update(zip(odesys.names, odesys.dep))
        def real(e):
            e = sympy.sympify(e)
            return e.subs({P[m]: symof[m] for m in list(P)})
        return self._check_built(c, odesys, extra, lambda n: real(look(n)), [real(k) for k in coeffs],
                                 'get_odesys (active substitutions / constants)')

    def _oracle_pk(self, c, rsys):
        """rate expressions with parameter keys (see `_pk`): which names become parameters, and N^T r with
        k_r = a0 + a1*T + a2*T**2 (a0 possibly a named constant), T a parameter / substituted / taken from `constants`"""
        import sympy
        names = list(c['subst'])
        rat = lambda q: sympy.Rational(kg.frac(q).numerator, kg.frac(q).denominator)
        cs = (['feedratio'] + ['fc_' + x for x in names]) if c['cstr'] else []
        pe_poly = dict((k, pp) for k, pp in (c.get('pe_poly') or []))
        pe = dict((k, kg.frac(v)) for k, v in c['param_exprs'])
        try:
            odesys, extra = run_builder(c, rsys)
            err = None
        except Exception as e:
            odesys, extra, err = None, None, e
        uks = [s['param']['uk'] for s in c['rxns'] if s['param'].get('uk')]
        pks = list(dict.fromkeys([s['param']['pk'] for s in c['rxns'] if s['param']['kind'] == 'poly'] +
                                 [pe_poly[s['param']['uk']]['pk'] for s in c['rxns'] if s['param']['kind'] == 'key' and s['param']['uk'] in pe_poly]))
        if set(names) & (set(uks) | set(pks) | set(cs) | set(pe)) or {'time', 't', 'x'} & (set(names) | set(uks) | set(pks)):
            return None
        if not participates(c) <= set(names):
            return None
        complete = c['cstr'] or participates(c) == set(names)
        sympy_nums = c['num'] == 'Rational' or c['cstr']
        if c['builder'] == 'get':
            passive = OrderedDict((k, kg.frac(v)) for k, v in c['subs'])
            consts = dict((k, kg.frac(v)) for k, v in (c.get('consts') or []))
            ori_pk = pks + cs
            if any(k not in ori_pk and k not in uks for k in passive):
                return None if err is not None else 'get_odesys accepted a substitution key that occurs in no rate expression'
            used_consts = {k: consts[k] for k in ori_pk if k not in passive and k in consts}
            want_pk = [k for k in ori_pk if k not in passive and k not in consts]
            reg, regval = [], {}
            if not c['include_params']:
                for s in c['rxns']:
                    p = s['param']
                    if p.get('uk') and p['uk'] not in passive:
                        if p['uk'] not in reg:
                            reg.append(p['uk'])
                        regval[p['uk']] = kg.frac(p['k']) if p['kind'] == 'named' else kg.frac(p['a'][0]) if p['kind'] == 'poly' else None
            want_params = want_pk + [k for k in reg if k not in want_pk]
            fixed = dict(passive)
            fixed.update(used_consts)
        else:
            want_params, fixed = [], dict(pe)
            for s in c['rxns']:
                p = s['param']
                if p['kind'] == 'raw':
                    return None                                          # refused by design (NotImplementedError)
                if p['kind'] == 'key':
                    want_params += [pe_poly[p['uk']]['pk']] if p['uk'] in pe_poly else [] if p['uk'] in pe else [p['uk']]
                elif p['kind'] in ('named', 'sym'):
                    want_params.append(p['uk'])
                elif p['kind'] == 'poly':
                    want_params += ([p['uk']] if p.get('uk') else []) + [p['pk']]
            want_params += cs
            if len(set(uks)) != len(uks):
                return None                                              # a repeated unique key: refused ("Duplicates in keys")
            want_params = list(dict.fromkeys(want_params))
        defined = set(names) | set(want_params)
        P = {}

        def look(n):
            if n in fixed and n not in names:
                return rat(fixed[n])
            if n in defined:
                return P.setdefault(n, sympy.Symbol('ph_' + n))
            raise KeyError(n)

        def poly_value(pp, a0):
            tot = a0
            for i, a in enumerate(pp['a'][1:], 1):
                tot = tot + rat(a) * look(pp['pk']) ** i
            return tot
        coeffs, undefined = [], False
        for s in c['rxns']:
            p = s['param']
            try:
                if p['kind'] in ('raw', 'ma'):
                    coeffs.append(rat(p['k']))
                elif p['kind'] == 'named':
                    coeffs.append(look(p['uk']) if (p['uk'] in fixed or p['uk'] in defined) else rat(p['k']))
                elif p['kind'] == 'key' and p['uk'] in pe_poly:
                    coeffs.append(poly_value(pe_poly[p['uk']], rat(pe_poly[p['uk']]['a'][0])))
                elif p['kind'] in ('key', 'sym'):
                    coeffs.append(look(p['uk']))
                elif p['kind'] == 'poly':
                    uk = p.get('uk')
                    coeffs.append(poly_value(p, look(uk) if uk and (uk in fixed or uk in defined) else rat(p['a'][0])))
                elif p['kind'] == 'strarg':
                    coeffs.append(look(p['key']))
            except KeyError:
                undefined = True
        if err is not None:
            if not undefined and complete and sympy_nums and c['rxns']:
                return '%s refused a well-formed system with parameter-keyed rate expressions: %s: %s' % (c['builder'], exc_name(err), str(err)[:100])
            return None
        if undefined:
            return '%s accepted a rate expression that reads an undefined variable' % c['builder']
        if c['builder'] == 'get':
            if set(extra['param_keys']) != set(want_pk):
                return 'param_keys %s, expected %s' % (extra['param_keys'], want_pk)
            if list(extra['unique']) != reg:
                return "extra['unique'] keys %s, registration order %s" % (list(extra['unique']), reg)
            if len(set(uks)) == len(uks):
                for k, v in extra['unique'].items():
                    if (None if v is None else kg.to_frac(v)) != regval[k]:
                        return "extra['unique'][%r] = %s, stored value %s" % (k, v, regval[k])
            if list(odesys.param_names)[len(want_pk):] != want_params[len(want_pk):]:
                return 'param_names %s do not end with the registered keys %s' % (list(odesys.param_names), reg)
        if set(odesys.param_names) != set(want_params) or len(set(odesys.param_names)) != len(odesys.param_names):
            return 'param_names %s, expected the set %s' % (list(odesys.param_names), want_params)
        symof = dict(zip(odesys.param_names, odesys.params))
        symof.update(zip(odesys.names, odesys.dep))

        def real(e):
            return sympy.sympify(e).subs({P[m]: symof[m] for m in list(P)})
        return self._check_built(c, odesys, extra if c['builder'] == 'get' else None, lambda n: real(look(n)),
                                 [real(k) for k in coeffs], '%s (parameter-keyed rate expressions)' % c['builder'])

    def _oracle_usersyms(self, c, rsys):
        """_create_odesys with user-supplied substance_symbols / parameter_symbols"""
        import sympy
        names = list(c['subst'])
        try:
            odesys, extra = run_builder(c, rsys)
            err = None
        except Exception as e:
            odesys, extra, err = None, None, e
        ss, ps, sp = c.get('subst_symbols'), c.get('param_symbols'), c.get('subst_symbols_plain')
        if sp is not None and not set(names) <= set(sp):
            return None if err is not None else '_create_odesys accepted a substance_symbols dict without a symbol for %s' % sorted(set(names) - set(sp))
        if sp is not None and 'no_substance' in sp:
            sp_extra = True                                # an extra symbol: harmless (a further entry of `symbols`)
        if err is None and (ss is not None or sp is not None) and [str(d) for d in odesys.dep] != names:
            return 'the dependent symbols %s are not the user\'s symbols of the substances %s, key by key' % (list(odesys.dep), names)
        if ss is not None and list(ss) != names:
            return None if isinstance(err, ValueError) else \
                '_create_odesys did not refuse (ValueError) substance_symbols with keys %s for substances %s: %s' % (ss, names, exc_name(err) if err else 'accepted')
        if ps is None:
            base = {k: v for k, v in c.items() if k not in ('subst_symbols', 'subst_symbols_plain')}
            f = self.oracle(base, rsys)                    # everything the default build must satisfy (binding by NAME) …
            if f is not None or err is not None or not clean(base):
                return f
            # … and the build that was actually made with the user's dict must be that kinetic model too
            coeffs = expected_free(base)
            symof = dict(zip(odesys.param_names, odesys.params))
            symof.update(zip(odesys.names, odesys.dep))
            pe0 = dict((k, kg.frac(v)) for k, v in c['param_exprs'])
            val = lambda n: sympy.Rational(pe0[n].numerator, pe0[n].denominator) if (n in pe0 and n not in names) else symof[n]
            return self._check_built(c, odesys, None, val,
                                     [val(k) if isinstance(k, str) else sympy.Rational(k.numerator, k.denominator) for k in coeffs],
                                     '_create_odesys (user substance_symbols)')
        if not ps['ordered']:
            return None if isinstance(err, ValueError) else \
                '_create_odesys did not refuse (ValueError) a parameter_symbols that is no OrderedDict: %s' % (exc_name(err) if err else 'accepted')
        keys = list(ps['keys'])
        pe = dict((k, kg.frac(v)) for k, v in c['param_exprs'])
        cs = (['feedratio'] + ['fc_' + x for x in names]) if c['cstr'] else []
        uks = [srx['param']['uk'] for srx in c['rxns'] if 'uk' in srx['param']]
        if not c['rxns'] or not participates(c) <= set(names) or ({'time', 't'} & (set(names) | set(keys) | set(uks))):
            return None
        if set(names) & (set(keys) | set(uks) | set(pe)) or set(pe) & set(cs) or \
                any(srx['param']['kind'] == 'sym' and srx['param']['uk'] in pe for srx in c['rxns']):
            return None                                   # one symbol for a substance and a parameter / an Expr object in arithmetic
        needed = [srx['param']['uk'] for srx in c['rxns'] if srx['param']['kind'] in ('key', 'sym') and srx['param']['uk'] not in pe] + cs
        complete = all(k in keys for k in needed)
        must_accept = complete and (c['cstr'] or participates(c) == set(names)) and (c['num'] == 'Rational' or c['cstr'])
        if err is not None:
            if must_accept:
                return '_create_odesys refused well-formed user symbols: %s: %s' % (exc_name(err), str(err)[:100])
            return None
        if not complete:
            return '_create_odesys accepted parameter_symbols %s although %s is needed' % (keys, [k for k in needed if k not in keys])
        if list(odesys.param_names) != keys:
            return 'param_names %s are not the keys of the given parameter_symbols %s' % (list(odesys.param_names), keys)
        symof = dict(zip(odesys.param_names, odesys.params))
        symof.update(zip(odesys.names, odesys.dep))

        def look(n):
            if n in pe and n not in names:
                return sympy.Rational(pe[n].numerator, pe[n].denominator)
            return symof[n]
        coeffs = []
        for srx in c['rxns']:
            p = srx['param']
            if p['kind'] in ('raw', 'ma') or (p['kind'] == 'named' and p['uk'] not in pe and p['uk'] not in keys):
                q = kg.frac(p['k'])
                coeffs.append(sympy.Rational(q.numerator, q.denominator))
            else:
                coeffs.append(look(p['uk']))
        return self._check_built(c, odesys, None, look, coeffs, '_create_odesys (user symbols)')

    def known_key(self, c, failure):
        """Finding `get_odesys:substance-named-like-unique-key`: substances, parameters, unique keys and substitutions share the
        one `variables` dict.  When a unique key equals a substance key and is not exposed as a parameter (include_params=True,
        or the key is substituted) pyodesys sees no clash, the build is accepted, and either `Expr.arg` finds the *concentration
        symbol* under the unique key (the rate constant silently becomes a concentration; a value-less key is accepted) or the
        substitution overwrites the concentration.  Characterising predicate: get_odesys and the unique key of some reaction
        is a substance key (with include_params=False and no substitution of that key the build is refused, so nothing fails)."""
        if (c.get('op') == 'build' or c.get('kind') == 'fractional') and c['builder'] == 'create':
            # Finding `_create_odesys:substance-named-like-parameter-key`: one sympy symbol per NAME; predicate: some parameter key
            # (unique key / string parameter / parameter-expression key) equals a substance key
            if set(c['subst']) & set([s['param'].get('uk') for s in c['rxns']] + [k for k, _ in c['param_exprs']]):
                return '_create_odesys:substance-named-like-parameter-key'
        if (c.get('op') == 'build' or c.get('kind') == 'fractional') and c['builder'] == 'get':
            if any(s['param'].get('uk') in c['subst'] for s in c['rxns']):
                return 'get_odesys:substance-named-like-unique-key'
        return None

    def classify(self, c):
        if c.get('op') == 'history':
            return 'history:' + '+'.join(sorted({x['do'] for x in c['steps'] if x['do'] != 'build'})) + (':alias' if c.get('alias') else '')
        if c.get('kind') == 'pk':
            return 'pk:%s%s%s%s%s' % (c['builder'], (':inl' if c['include_params'] else ':free') * (c['builder'] == 'get'),
                                      ':cstr' if c['cstr'] else '', ':consts' if c.get('consts') else '', ':pe' if c.get('pe_poly') else '')
        if c.get('kind') == 'fractional':
            return 'fractional:%s%s:%s%s%s' % (c['coef_type'], ':orders' if c.get('orders') else '', c['builder'],
                                               (':inl' if c['include_params'] else ':free') * (c['builder'] == 'get'), ':cstr' if c['cstr'] else '')
        if c.get('op') != 'build':
            return str(c.get('op'))
        kinds = ''.join(sorted(set(s['param']['kind'][0] for s in c['rxns'])))
        cfg = c['builder'] + (':inl' if c['include_params'] else ':free') * (c['builder'] == 'get') + \
            (':cstr' if c['cstr'] else '') + (':subs' if c['subs'] or c['param_exprs'] else '')
        return '%s:%s:%s:nr%d%s' % (cfg, 'clean' if clean(c) else 'edge', kinds or '-', min(len(c['rxns']), 4),
                                    ':shared' if shared_inconsistent(c) else '') + (':alias' if c.get('alias') else '') + (
            ':active' if c.get('active') else '') + (':consts' if c.get('consts') else '') + (
            ':usersyms' if c.get('subst_symbols') is not None or c.get('param_symbols') is not None or
            c.get('subst_symbols_plain') is not None else '') + (
            ':conv' if any(s['param'].get('conv') for s in c['rxns']) else '') + (
            ':same-object' if any('share' in s for s in c['rxns']) else '') + (':copy' if any('from_copy' in s for s in c['rxns']) else '')

    def nontrivial(self, c):
        return bool(c.get('rxns'))


PROPERTY = C04()
