"""C02 — balancing returns only balanced, positive, canonical coefficients or refuses.

Cases (all exact, compositions are Fractions, names ASCII):
  balance        honest real call (one mode) vs the Lean model `balanceCore`, the model being handed the
                 solver's vector as a parameter: mode None -> the vector CBC actually returned (spied),
                 modes True/False -> the planted ray (single-ray instances) / zero vector (full-rank instances)
  balance_inj    real call with the SOLVER REPLACED by an injected candidate vector (patching
                 chempy.chemistry._solve_balancing_ilp_pulp / sympy.linsolve for the duration of the call)
                 vs `balanceCore` with the same candidate: exercises chempy's gate with arbitrary solver answers
  setup          the signed matrix chempy builds (spied at the ILP call) / the pre-check's refusal vs `setup`
  minimal        `minimalBySearch` (Lean, verified) vs an independent enumeration here, on the real mode-None output
  balanced_inst  mode-True symbolic output substituted at random positive parameter values, checked by the Lean checker
  dup            allow_duplicates=True: the sequence of duplicate-free sub-calls the real code makes (spied) and their
                 outcomes, replayed through the model's `dupSearch`
The oracle evaluates the property itself on honest real calls with Fractions, independently of the Lean model.
"""
from fractions import Fraction
from collections import OrderedDict
from functools import reduce
from math import gcd
import itertools, json

from lib.framework import Property
from .util import rat_json, show_rat, exc_name

MODES = {'True': True, 'False': False, 'None': None, '1': 1}     # 1: deprecated spelling of None (`underdetermined is 1`)


def canon_mode(m):
    return 'None' if m == '1' else m
CALL_LIMIT_S = 8           # one real call (sympy + CBC) normally takes 0.01-0.4 s
MAX_TIMEOUTS = 6           # after that many, further real calls are not attempted (the check must not hang); all of them are inconclusive


class HarnessTimeout(BaseException):
    """BaseException so that chempy's own `except Exception` cannot swallow it"""


class time_limit:
    timeouts = 0

    def __enter__(self):
        import signal
        if time_limit.timeouts >= MAX_TIMEOUTS:
            raise HarnessTimeout('earlier real calls timed out')

        def on_alarm(signum, frame):
            raise HarnessTimeout('real call exceeded %d s' % CALL_LIMIT_S)
        self.old = signal.signal(signal.SIGALRM, on_alarm)
        signal.alarm(CALL_LIMIT_S)
        return self

    def __exit__(self, typ, val, tb):
        import signal, subprocess, os
        signal.alarm(0)
        signal.signal(signal.SIGALRM, self.old)
        if typ is HarnessTimeout:
            time_limit.timeouts += 1
            import sys
            print('C02: a real call exceeded %d s (CBC runs without a time limit) - inconclusive; %d so far%s' % (
                CALL_LIMIT_S, time_limit.timeouts, ', circuit breaker open: further real calls are skipped' if time_limit.timeouts >= MAX_TIMEOUTS else ''),
                file=sys.stderr)
            subprocess.run(['pkill', '-9', '-P', str(os.getpid()), '-f', 'cbc'])   # the solver child keeps running otherwise
        return False

TAGS = [
    ('Substances on both sides', 'both-sides'),
    ('not among reactants', 'not-among-reactants'),
    ('not among products', 'not-among-products'),
    ('Superfluous species', 'superfluous'),
    ('Failed to balance reaction', 'failed'),
    ('under-determined', 'underdetermined'),
    ('No solution with only positive coefficients', 'nonpositive'),
    ('reactants and products identical', 'identical'),
    ('Failed to remove duplicate keys', 'dup-failed'),
]


def err_line(e):
    n = exc_name(e)
    if n == 'ValueError':
        for frag, tag in TAGS:
            if frag in str(e):
                return 'ValueError:' + tag
        return 'ValueError:?' + str(e)[:60]
    return n


def F(v):
    return Fraction(v[0], v[1]) if isinstance(v, list) else Fraction(v)


# ------------------------------------------------------------------ exact linear algebra (harness-side, trusted)
def rank(rows):
    m = [list(r) for r in rows]
    rk, ncol = 0, (len(m[0]) if m else 0)
    for c in range(ncol):
        piv = next((i for i in range(rk, len(m)) if m[i][c] != 0), None)
        if piv is None:
            continue
        m[rk], m[piv] = m[piv], m[rk]
        pv = m[rk][c]
        m[rk] = [x / pv for x in m[rk]]
        for i in range(len(m)):
            if i != rk and m[i][c] != 0:
                f = m[i][c]
                m[i] = [a - f * b for a, b in zip(m[i], m[rk])]
        rk += 1
    return rk


def inst_comps(inst):
    """composition None (a Substance without composition, only ever a NON-participating entry of the table) reads as {}"""
    return {k: {int(a): F(b) for a, b in (v or [])} for k, v in inst['substances']}


def inst_keys(inst):
    return sorted({a for _, v in inst['substances'] for a, _ in (v or [])})


def eff(inst):
    """the sides in the order the function works with: a side passed as a set is sorted"""
    r = sorted(inst['reactants']) if inst.get('reactants_set') else list(inst['reactants'])
    p = sorted(inst['products']) if inst.get('products_set') else list(inst['products'])
    return r, p


def reorder(inst, vec):
    """vec is indexed like inst['reactants'] + inst['products']; result like the effective order"""
    by = dict(zip(inst['reactants'] + inst['products'], vec))
    r, p = eff(inst)
    return [by[k] for k in r + p]


def signed_matrix(inst):
    comps = inst_comps(inst)
    r, p = eff(inst)
    return [[comps[s].get(ck, Fraction(0)) * (-1 if s in r else 1) for s in r + p] for ck in inst_keys(inst)]


def enum_pos(n, budget):
    """all vectors of n positive ints with sum <= budget"""
    if n == 0:
        yield ()
        return
    for v in range(1, budget - (n - 1) + 1):
        for rest in enum_pos(n - 1, budget - v):
            yield (v,) + rest


def has_smaller(A, x):
    s = sum(x)
    for y in enum_pos(len(x), s - 1):
        if all(sum(a * b for a, b in zip(r, y)) == 0 for r in A):
            return True
    return False


# ------------------------------------------------------------------ generators
# a SMALL pool: the same species names recur from case to case with different compositions, so that the run is also a
# history of calls in one process (module-level state keyed by species name would be exposed)
NAME_POOL = ['Aq', 'B2', 'Cx', 'D', 'Ee', 'F3', 'G', 'Hh', 'J']


def norm_inst(inst):
    """how the call is made: via = dict (explicit mapping) | factory (substances=None + substance_factory looking the key up
    in this call's table) | string (substances='A B P' + substance_factory); a side may be passed as a set"""
    inst.setdefault('via', 'dict')
    inst.setdefault('reactants_set', False)
    inst.setdefault('products_set', False)
    if inst['via'] == 'string':
        inst.setdefault('string_keys', [nm for nm, _ in inst['substances']])
    return inst


def decorate(rng, inst, allow_sets=True):
    inst = dict(inst)
    inst['via'] = rng.choice(['dict', 'dict', 'factory', 'factory', 'string'])
    if inst['via'] == 'string':
        ks = [nm for nm, _ in inst['substances']]
        rng.shuffle(ks)
        inst['string_keys'] = ks
    inst['reactants_set'] = allow_sets and rng.random() < 0.25
    inst['products_set'] = allow_sets and rng.random() < 0.25
    inst.setdefault('amounts', 'fraction')
    if not inst.get('formula') and 0 in inst_keys(inst) and rng.random() < 0.4:
        inst['charge_arg'] = True          # net charges through Substance(..., charge=q, composition={...without key 0...})
    return inst


SYMBOLS = ['H', 'He', 'Li', 'Be', 'B', 'C', 'N', 'O', 'F', 'Ne', 'Na', 'Mg', 'Al', 'Si', 'P', 'S', 'Cl', 'Ar', 'K', 'Ca', 'Sc', 'Ti', 'V',
           'Cr', 'Mn', 'Fe', 'Co', 'Ni', 'Cu', 'Zn', 'Ga', 'Ge', 'As', 'Se', 'Br', 'Kr', 'Rb', 'Sr', 'Y']       # atomic numbers 1..39


def is_integral(inst):
    return all(F(b).denominator == 1 for _, comp in inst['substances'] for _, b in comp)


def decimalize(rng, inst):
    """every element row of an integer instance scaled by a decimal factor (balance is row-wise, so the planted vector stays):
    amounts like 0.02, 0.6, 0.9, 0.03, 2.1; the charge row stays integral"""
    factors = {}
    subs = []
    for nm, comp in inst['substances']:
        new = []
        for k, v in comp:
            if k not in factors:
                factors[k] = Fraction(1) if k == 0 else rng.choice([Fraction(1, 10), Fraction(3, 10), Fraction(7, 10), Fraction(9, 10),
                                                                      Fraction(1, 100), Fraction(3, 100), Fraction(1, 5), Fraction(1, 2), Fraction(1)])
            new.append([k, rat_json(F(v) * factors[k])])
        subs.append([nm, new])
    return dict(inst, substances=subs)


def dec_str(q):
    q = F(q)
    if q.denominator == 1:
        return str(q.numerator)
    from decimal import Decimal
    d = Decimal(q.numerator) / Decimal(q.denominator)
    assert F(str(d)) == q, q
    return format(d, 'f')


def formulize(inst):
    """species named by flat formulas with decimal subscripts ('Fe0.6O0.9', 'Na0.5Cl1.25-1'); None when not expressible"""
    ren = {}
    for nm, comp in inst['substances']:
        el = sorted((k, F(v)) for k, v in comp if k != 0)
        if not el or any(v <= 0 or k > len(SYMBOLS) for k, v in el):
            return None
        f = ''.join('%s%s' % (SYMBOLS[k - 1], dec_str(v)) for k, v in el)
        ch = [F(v) for k, v in comp if k == 0]
        if ch:
            if ch[0].denominator != 1:
                return None
            c = int(ch[0])
            f += ('+%d' % c) if c > 0 else ('-%d' % -c)
        if f in ren.values():
            return None
        ren[nm] = f
    return dict(inst, formula=True, amounts='float',
                reactants=[ren[k] for k in inst['reactants']], products=[ren[k] for k in inst['products']],
                substances=[[ren[nm], comp] for nm, comp in inst['substances']])


def float_stream(rng, inst):
    """-> instance whose amounts reach chempy as Python floats (dict compositions or decimal-subscript formulas), or the instance unchanged"""
    u = rng.random()
    if u < 0.12 and is_integral(inst):
        f = formulize(decimalize(rng, inst))
        if f is not None:
            return f
    if u < 0.22 and is_integral(inst):
        return dict(decimalize(rng, inst), amounts=rng.choice(['float', 'float', 'float-noisy']))
    if u < 0.32 and all((F(b) * 10 ** 4).denominator == 1 for _, comp in inst['substances'] for _, b in comp):
        # only finite decimals (<= 4 places): a double near 1079/105 = 10.276190476190477 has no decimal reading to be expected
        # (nsimplify(rational=True) reads it as 20552380952381/2000000000000 and the reaction is balanced for THAT reading)
        return dict(inst, amounts=rng.choice(['float', 'float', 'float-noisy']))
    return inst


def add_extras(rng, inst):
    """the `substances` table holds MORE entries than the reaction's species: without composition (None), with keys of the reaction,
    or (rarely) with a key no species has (then chempy refuses: the key is 'not among reactants'). -> (instance, introduces_new_key)"""
    used = {nm for nm, _ in inst['substances']}
    pool = [n for n in NAME_POOL + LARGE_POOL if n not in used]
    keys = inst_keys(inst)
    subs = [list(e) for e in inst['substances']]
    new_key = False
    for _ in range(rng.randint(1, 2)):
        nm = pool.pop(rng.randrange(len(pool)))
        u = rng.random()
        if u < 0.4:
            comp = None
        elif u < 0.9 or not keys:
            comp = [[k, rng.randint(1, 3)] for k in rng.sample(keys, rng.randint(1, min(2, len(keys)))) if k != 0] or None
        else:
            comp = [[max(keys) + 1, 1]]
            new_key = True
        subs.insert(rng.randrange(len(subs) + 1), [nm, comp])
    return dict(inst, substances=subs), new_key


def call_fields(inst):
    norm_inst(inst)
    d = {k: inst[k] for k in ('reactants', 'products', 'substances', 'via', 'reactants_set', 'products_set')}
    # composition_keys skips a Substance whose composition is None: for an entry that takes no part that is the empty composition
    d['substances'] = [[nm, comp or []] for nm, comp in inst['substances']]
    if inst['via'] == 'string':
        d['string_keys'] = inst['string_keys']
    d['inst'] = inst
    return d


def call_args(inst):
    """positional/keyword arguments of the real call for this instance"""
    from chempy import Substance
    norm_inst(inst)
    table = dict(inst['substances'])
    r = set(inst['reactants']) if inst['reactants_set'] else list(inst['reactants'])
    p = set(inst['products']) if inst['products_set'] else list(inst['products'])
    kw = {}
    if inst['via'] == 'dict':
        kw['substances'] = substances_of(inst)
    else:
        if not inst.get('formula'):          # formula instances: the default factory Substance.from_formula parses the key
            kw['substance_factory'] = lambda k: make_substance(inst, k, table[k])
        kw['substances'] = None if inst['via'] == 'factory' else ' '.join(inst['string_keys'])
    return r, p, kw


def coprime_pos(rng, n, hi):
    while True:
        x = [rng.randint(1, hi) for _ in range(n)]
        if reduce(gcd, x) == 1:
            return x


def gen_rows(rng, x, nr, n_rows, frac, charge, dyadic=False):
    """composition rows c (one per key) with sum_reac c_j x_j == sum_prod c_j x_j; element rows are >= 0"""
    n = len(x)
    rows = []
    tries = 0
    while len(rows) < n_rows and tries < 200:
        tries += 1
        signed = charge and len(rows) == 0
        lo = -2 if signed else 0
        c = [Fraction(rng.randint(lo, 3)) if rng.random() < 0.6 else Fraction(0) for _ in range(n)]
        if frac and rng.random() < 0.5:
            for _ in range(rng.randint(1, 2)):        # halves, thirds, fifths, sevenths ..., mixed denominators in one row
                j = rng.randrange(n)
                c[j] = c[j] + Fraction(rng.randint(1, 6), rng.choice([2, 4] if dyadic else [2, 3, 4, 5, 6, 7, 10]))
        j = rng.randrange(n)                          # the species whose amount is solved for
        c[j] = Fraction(0)
        tr = sum(c[i] * x[i] for i in range(nr))
        tp = sum(c[i] * x[i] for i in range(nr, n))
        need = (tp - tr) if j < nr else (tr - tp)     # c_j * x_j must equal this
        v = need / x[j]
        # non-dyadic amounts (7/3, 2/5 ...) are generated since fix c82b474 (the ILP gets integer rows); before it mode None
        # refused such balanceable reactions (notes, finding 7)
        if (not frac and v.denominator != 1) or (dyadic and v.denominator & (v.denominator - 1)):
            c = [ci * x[j] for ci in c]
            v = v * x[j]
        if v < 0 and not signed:
            continue
        c[j] = v
        if all(ci == 0 for ci in c):
            continue
        rows.append(c)
    return rows


def make_inst(rng, names, nr, rows, key_ids):
    subs = []
    for j, nm in enumerate(names):
        comp = [[key_ids[i], rat_json(rows[i][j])] for i in range(len(rows)) if rows[i][j] != 0]
        rng.shuffle(comp)
        subs.append([nm, comp])
    return {'reactants': names[:nr], 'products': names[nr:], 'substances': subs}


LARGE_POOL = ['S%02d' % i for i in range(20)]      # names for the 11-16 species instances (also recurring)


def gen_planted(rng, tier, want_nullity=1, names=None, nr=None, large=False, dyadic=False):
    """instance with a planted positive coprime solution and null space of the wanted dimension;
    large: 11-16 species, 10+ composition keys (two-digit column indices, more keys than a textbook reaction)"""
    for _ in range(400):
        n = len(names) if names else (rng.randint(11, 16) if large else
                                      rng.randint(max(2, want_nullity + 1), 5 if tier == 'quick' else 6))
        nr = nr if names else rng.randint(1, n - 1)
        x = coprime_pos(rng, n, rng.choice([2, 3, 4, 6]))
        frac = rng.random() < 0.35
        charge = rng.random() < 0.4
        n_rows = (n - want_nullity) + rng.randint(0, 2)
        rows = gen_rows(rng, x, nr, n_rows, frac, charge, dyadic)
        if not rows:
            continue
        A = [[(-c if j < nr else c) for j, c in enumerate(r)] for r in rows]
        if rank(A) != n - want_nullity:
            continue
        if any(all(r[j] == 0 for r in rows) for j in range(n)):
            continue
        names = list(names) if names else rng.sample(LARGE_POOL if large else NAME_POOL, n)
        key_ids = ([0] if charge else []) + rng.sample(range(1, 40), len(rows))
        inst = make_inst(rng, names, nr, rows, key_ids[:len(rows)])
        return inst, x
    raise RuntimeError('generator failed')


def move_species(rng, inst, x):
    """wrong-side placement: one species moved across the arrow; the only ray now has mixed signs"""
    r, p = list(inst['reactants']), list(inst['products'])
    if len(r) + len(p) < 3:
        return None
    if len(r) > 1 and (len(p) == 1 or rng.random() < 0.5):
        s = r.pop(rng.randrange(len(r)))
        p.insert(rng.randrange(len(p) + 1), s)
    else:
        s = p.pop(rng.randrange(len(p)))
        r.insert(rng.randrange(len(r) + 1), s)
    old = inst['reactants'] + inst['products']
    ray = [(-x[old.index(k)] if k == s else x[old.index(k)]) for k in r + p]
    return dict(inst, reactants=r, products=p), ray


def add_unbalanced_key(rng, inst):
    """full column rank: an extra component present on both sides that the planted vector does not balance"""
    n = len(inst['substances'])
    nr = len(inst['reactants'])
    subs = [[nm, [list(e) for e in comp]] for nm, comp in inst['substances']]
    order = {nm: i for i, (nm, _) in enumerate(subs)}
    key = 77
    for _ in range(50):
        c = [rng.randint(0, 3) for _ in range(n)]
        names = inst['reactants'] + inst['products']
        if not any(c[j] for j in range(nr)) or not any(c[j] for j in range(nr, n)):
            continue
        new = [[nm, [list(e) for e in comp]] for nm, comp in subs]
        for j, nm in enumerate(names):
            if c[j]:
                new[order[nm]][1].append([key, c[j]])
        cand = dict(inst, substances=new)
        if rank(signed_matrix(cand)) == n:
            return cand
    return None


# ------------------------------------------------------------------ real code access
class Spy:
    """replaces the solver (optionally) and records what chempy passes to / receives from it"""

    def __init__(self, inject=None, mode=None):
        self.inject, self.mode = inject, mode
        self.A = None
        self.ilp_out = None

    def __enter__(self):
        import sympy
        import chempy.chemistry as cc
        self.cc, self.sympy = cc, sympy
        self.old_ilp, self.old_lin = cc._solve_balancing_ilp_pulp, sympy.linsolve
        spy = self

        def ilp(A):
            spy.A = [[Fraction(int(e.p), int(e.q)) for e in row] for row in A.tolist()]
            if spy.inject is not None and spy.inject != 'nonlinear' and spy.mode is None:
                out = list(spy.inject)
            else:
                out = spy.old_ilp(A)
            spy.ilp_out = list(out)
            return out

        cc._solve_balancing_ilp_pulp = ilp
        if self.inject == 'nonlinear':
            # a "solver answer" that is not a linear parametrisation: the parameter elimination must refuse (ValueError 'Bug, please report')
            sympy.linsolve = lambda system, symbs: sympy.FiniteSet(sympy.Tuple(*([symbs[-1] ** 2] + [symbs[-1]] * (len(symbs) - 1))))
        elif self.inject is not None and self.mode is not None:
            cand = sympy.Tuple(*[sympy.Rational(q.numerator, q.denominator) for q in self.inject])
            sympy.linsolve = lambda system, symbs: sympy.FiniteSet(cand)
        return self

    def __exit__(self, *a):
        self.cc._solve_balancing_ilp_pulp, self.sympy.linsolve = self.old_ilp, self.old_lin


def amount(inst, q):
    """the Python value handed to chempy for the exact amount q: Fraction (default), the nearest double ('float'),
    or a double that went through float arithmetic and may be an ulp off ('float-noisy', e.g. 0.1*3)"""
    q = F(q)
    a = inst.get('amounts', 'fraction')
    if a == 'fraction':
        return q
    if q.denominator == 1:
        return int(q)
    return float(q) if a == 'float' else (float(q) / 3) * 3


def make_substance(inst, nm, comp):
    """how a composition reaches balance_stoichiometry other than through from_formula: a dict (net charge under key 0), or -
    `charge_arg` - the constructor's `charge=` argument next to a composition WITHOUT key 0 (possibly empty: a pure charge carrier
    such as Substance('e-', charge=-1, composition={})); the constructor stores the charge under key 0"""
    from chempy import Substance
    if comp is None:
        return Substance(nm, composition=None)
    d = {int(a): amount(inst, b) for a, b in comp}
    if inst.get('charge_arg') and 0 in d:
        c = d.pop(0)
        return Substance(nm, charge=c, composition=d)
    return Substance(nm, composition=d)


def substances_of(inst):
    from chempy import Substance
    if inst.get('formula'):
        return OrderedDict((nm, Substance.from_formula(nm)) for nm, _ in inst['substances'])
    return OrderedDict((nm, make_substance(inst, nm, comp)) for nm, comp in inst['substances'])


def show_entry(v):
    import sympy
    if isinstance(v, int):
        return str(v)
    v = sympy.sympify(v)
    if v is sympy.nan:
        return 'nan'
    if v.free_symbols:
        return 'sym'
    if v.is_Rational:
        return show_rat(Fraction(int(v.p), int(v.q)))
    return '?' + str(v)


def show_dict(d):
    return json.dumps([[k, show_entry(v)] for k, v in d.items()], separators=(',', ':'))


class C02(Property):
    pid = 'C02'
    title = ('balance_stoichiometry returns coefficients that balance every composition key, positive coprime integers in the '
             'numeric modes, keys = species given, the unique minimal solution on single-ray instances, a minimal-sum solution in '
             'mode None, and raises ValueError when no positive assignment balances the species as placed')
    props_module = 'ChemModel.Props.C02'
    build_modules = ('ChemModel.Model.Balance', 'ChemModel.Basic.Proto')
    driver = 'ChemModel/Driver/C02.lean'
    n_quick, n_thorough = 900, 18000
    rule = ('instances with a planted positive coprime solution (2-6 species, random side split, integer / fractional compositions, optional '
            'signed charge row, null space of dimension 1 by exact rank computation), their wrong-side and full-rank (infeasible) variants, '
            'two-ray instances, allow_duplicates instances; each crossed with the three modes and with injected solver answers '
            '(scaled, negated, zeroed, perturbed, fractional, wrong length). Non-trivial = distinct JSON value.')
    assumptions = (
        'the solver core (sympy linsolve + expression surgery, PuLP/CBC) is a parameter of the model: the theorems hold for EVERY vector it may return',
        'that CBC returns a minimum-sum vector is certified per instance by the verified checker minimalBySearch, not proved for all inputs',
        'mode True never checks the residual: balance of a symbolic / mode-True answer rests on linsolve and is validated per instance (identically, by sympy expansion, and at sample points by the Lean checker)',
        'single-ray-ness of generated instances rests on the exact Fraction rank computation in tools/harness/c02.py',
        'sympy\'s gcd of rational numbers is modelled as gcd(numerators)/lcm(denominators) (QQ.gcd), gcd_list with its early exit; tied by the injected-candidate correspondence',
        'compositions are driven as exact Fractions (any denominators), ints, or Python floats that denote finite decimals with <= 4 places (0.02, 0.6, 2.1; also an ulp '
        'off, e.g. (0.3/3)*3), in dict compositions and through decimal-subscript formulas parsed by Substance.from_formula; expected = the decimal reading. A double with '
        'no short decimal reading (e.g. the double next to 1079/105) is read by nsimplify(rational=True) as a long decimal; the reaction is balanced for that reading - not generated',
        'allow_duplicates instances use integer / dyadic amounts only: their sub-instances are not planted and can have 6-digit minimal coefficients, on which CBC (called without '
        'a time limit) runs for minutes - performance, outside the statement of C02',
        'large instances (11-16 species) are generated single-ray only: chempy calls CBC without a time limit and 11+ species two-ray ILPs can run '
        'for minutes - a performance matter outside the statement of C02',
        'species names are distinct within each side (a name repeated on one side collapses in the returned dict; outside the property\'s quantifier over sets)',
    )
    clauses_without_theorem = (
        "'the smallest-integers mode returns a positive solution of MINIMAL coefficient sum': that CBC's vector is minimal is "
        "certified per instance only (verified checker minimalBySearch on the real output + independent enumeration in the oracle, sum <= 24, n <= 8). "
        "Proved is everything chempy's own code contributes: the gate returns exactly v / gcd(v) for any positive integer ILP answer v (gate_divides_by_gcd, "
        "sum never increases), a minimal-sum vector is coprime (min_sum_is_coprime) and is returned unchanged (smallest_mode_returns_minimal)",
        "'identically in any free parameter' (mode True with a parametric answer): no theorem - chempy applies no residual check in mode "
        "True (gate_symbolic_mode_skips_residual_witness); decided per instance by the oracle (sympy expansion of both totals) and by the "
        "Lean checker balanced_inst at sampled parameter values",
        "integrality / coprimality of an answer whose vector still held symbols at the normalisation step: rests on sympy's polynomial gcd, "
        "not modelled (gate_sound_symbolic_partial proves balanced + positive + length only); never observed (mode False refuses such vectors)",
        "honest multi-ray cases in modes True/False: the model's candidate is built FROM the real result, so that correspondence is circular "
        "for the gate (it only exercises the key/dict construction and the free-symbol refusal); these cases are decided by the oracle "
        "(independent Fractions / sympy expansion), not by the model",
        "single-ray clause in mode True: single_ray_answer needs the solver's contract there (the vector linsolve returns lies in the null "
        "space and has one entry per species) because mode True checks no residual",
        "that linsolve + symbol surgery / CBC do hand back a positive multiple of the ray (the premise of gate_complete_on_ray) and that "
        "generated instances are single-ray (exact rank in the harness): per instance, planted answers",
        "`underdetermined=1` (deprecated spelling of None): modelled as RawMode.one (-> smallest mode after the duplicate handling, NotImplementedError with "
        "duplicates because the raw argument is not None); decided by correspondence (incl. dup x mode 1) and oracle, no theorem beyond the `balanceCall .one` example",
        "the parameter-elimination surgery between linsolve and the gate (incl. its `raise ValueError('Bug, please report')` and the `symb / cd` rescaling) "
        "is part of the solver parameter: executed by three-ray instances and by an injected non-linear solver answer, judged by the oracle only "
        "(balanced identically / refused with ValueError)",
        "allow_duplicates: balance_call_end_to_end proves balanced / positive / coprime for whatever the duplicate search returns (on a selection of the species); "
        "that it FINDS a selection when one exists is not proved (oracle: planted-sides instances must not be refused)",
        "`_solve_balancing_ilp_pulp` called directly (Rational and sympy-Float matrices, the `mult = 1` fallback): oracle only (positive multiple of the "
        "planted vector in column order); `Substance.composition_keys(skip_keys=...)`: oracle only (balance_stoichiometry never passes skip_keys); a table "
        "entry without composition (None) is sent to the model as the empty composition (only non-participating entries are generated)",
        "process-level state (e.g. a cache keyed by species name) cannot be expressed by a pure model: covered by histories in the oracle only",
    )
    anchors = (('chempy/chemistry.py', 'balance_stoichiometry'), ('chempy/chemistry.py', '_solve_balancing_ilp_pulp'),
               ('chempy/chemistry.py', 'Substance.composition_keys'))

    def __init__(self):
        self._cache = {}
        self.n_timeouts = 0

    # ---- real calls (cached: model_case, impl and oracle share them) -----------------------------------
    def real(self, inst, mode_s, inject=None, dup=False, nocache=False):
        key = json.dumps([inst, mode_s, inject, dup], sort_keys=True)
        if key in self._cache and not nocache:
            return self._cache[key]
        import warnings
        mode = MODES[mode_s]
        inj = inject if inject in (None, 'nonlinear') else ([int(v) for v in inject] if mode is None else [F(v) for v in inject])
        out = {'A': None, 'ilp': None}
        with warnings.catch_warnings():
            warnings.simplefilter('ignore')
            with Spy(inj, mode) as spy:
                try:
                    with time_limit():
                        ra, pa, kw = call_args(inst)
                        r, p = spy.cc.balance_stoichiometry(ra, pa, underdetermined=mode, allow_duplicates=dup, **kw)
                    out['res'] = (r, p)
                    out['line'] = 'ok %s %s' % (show_dict(r), show_dict(p))
                except HarnessTimeout as e:
                    out['res'] = None
                    out['exc'] = TimeoutError(str(e))
                    out['line'] = 'TimeoutError'
                    # a real call that does not return in time (CBC is called without a time limit) or that was not attempted because the
                    # circuit breaker is open is INCONCLUSIVE: never a counterexample, never a disagreement (performance is not part of C02)
                    out['timeout'] = True
                    self.n_timeouts += 1
                except Exception as e:
                    out['res'] = None
                    out['exc'] = e
                    out['line'] = err_line(e)
            out['A'], out['ilp'] = spy.A, spy.ilp_out
        if len(self._cache) > 20000:
            self._cache.clear()
        self._cache[key] = out
        return out

    def real_dup(self, inst, mode_s):
        """real call with allow_duplicates=True, every (recursive) call recorded"""
        key = json.dumps(['dup', inst, mode_s], sort_keys=True)
        if key in self._cache:
            return self._cache[key]
        import warnings
        import chempy.chemistry as cc
        orig = cc.balance_stoichiometry
        calls = []

        def wrapper(reactants, products, *a, **kw):
            norm = lambda s: sorted(s) if type(s) == set else list(s)
            r, p = norm(reactants), norm(products)
            leaf = not (set(r) & set(p))
            try:
                res = orig(reactants, products, *a, **kw)
                if leaf:
                    calls.append([r, p, 'ok'])
                return res
            except Exception as e:
                if leaf:
                    calls.append([r, p, err_line(e)])
                raise

        cc.balance_stoichiometry = wrapper
        out = {}
        try:
            with warnings.catch_warnings():
                warnings.simplefilter('ignore')
                try:
                    with time_limit():
                        ra, pa, kw = call_args(inst)
                        r, p = cc.balance_stoichiometry(ra, pa, underdetermined=MODES[mode_s], allow_duplicates=True, **kw)
                    out['res'] = (r, p)
                    out['line'] = 'ok %s %s' % (json.dumps(list(r.keys()), separators=(',', ':')), json.dumps(list(p.keys()), separators=(',', ':')))
                except HarnessTimeout as e:
                    out['res'] = None
                    out['exc'] = TimeoutError(str(e))
                    out['line'] = 'TimeoutError'
                    # a real call that does not return in time (CBC is called without a time limit) or that was not attempted because the
                    # circuit breaker is open is INCONCLUSIVE: never a counterexample, never a disagreement (performance is not part of C02)
                    out['timeout'] = True
                    self.n_timeouts += 1
                except Exception as e:
                    out['res'] = None
                    out['exc'] = e
                    out['line'] = err_line(e)
        finally:
            cc.balance_stoichiometry = orig
        out['calls'] = calls
        self._cache[key] = out
        return out

    # ---- generation ----------------------------------------------------------------------------------
    def generate(self, rng, n, tier):
        cases, hist = [], []

        def add(c):
            cases.append(c)

        def all_modes(inst, kind, **kw):
            for m in ('True', 'False', 'None'):
                add(dict({'op': 'balance', 'kind': kind, 'mode': m, 'inst': inst}, **kw))

        def injections(inst, x):
            nsp = len(x)
            cands = []
            k = rng.randint(1, 4)
            cands.append([k * v for v in x])
            cands.append([-k * v for v in x])
            z = list(x)
            z[rng.randrange(nsp)] = 0
            cands.append(z)
            pz = list(x)
            pz[rng.randrange(nsp)] += rng.choice([1, 2, -1])
            cands.append(pz)
            cands.append([0] * nsp)
            cands.append([rng.randint(-3, 5) for _ in range(nsp)])
            cands.append(list(x) + [rng.randint(1, 3)])
            cands.append(list(x)[:-1])
            q = Fraction(rng.randint(1, 5), rng.randint(1, 6))
            fr = [[rat_json(q * v) for v in x],
                  [rat_json(Fraction(v) / rng.choice([1, 2, 3])) for v in x],
                  [rat_json(Fraction(rng.randint(-2, 6), rng.choice([1, 1, 2, 3]))) for _ in x]]
            picks = rng.sample(cands, 3)
            for c in picks:
                add({'op': 'balance_inj', 'kind': 'inject', 'mode': rng.choice(['True', 'False', 'None']), 'inst': inst, 'cand': c})
            add({'op': 'balance_inj', 'kind': 'inject', 'mode': rng.choice(['True', 'False']), 'inst': inst, 'cand': rng.choice(fr)})

        it = 0
        while len(cases) < n:
            # kinds in a fixed rotation (coverage of every kind even for small n), a random draw in between
            rot = [0.1, 0.45, 0.6, 0.7, 0.9, 0.2, 0.5, 0.75]
            r = rot[(it // 2) % len(rot)] if it % 2 == 0 else rng.random()
            it += 1
            large = it % 7 == 3          # every 7th draw: 11-16 species (two-digit column indices), 10+ composition keys
            if r < 0.40:
                inst, x = gen_planted(rng, tier, large=large)
                base, kind = float_stream(rng, inst), 'planted'
                if not base.get('formula') and rng.random() < 0.2:      # a `substances` table with more entries than species
                    base, new_key = add_extras(rng, base)
                    kind = 'extra-key' if new_key else 'planted'
                inst = decorate(rng, base)
                x = reorder(inst, x)
                all_modes(inst, kind, x=x)
                if rng.random() < 0.25:                                  # the deprecated spelling underdetermined=1 of None
                    add({'op': 'balance', 'kind': kind, 'mode': '1', 'inst': inst, 'x': x})
                if rng.random() < 0.12:
                    add({'op': 'inject_nonlinear', 'kind': 'inject', 'mode': rng.choice(['True', 'False']), 'inst': inst})
                if kind == 'planted' and rng.random() < 0.2:
                    dy = all(F(b).denominator & (F(b).denominator - 1) == 0 for _, comp in inst['substances'] for _, b in (comp or []))
                    add({'op': 'ilp_direct', 'kind': 'planted', 'inst': inst, 'x': x,
                         'entries': rng.choice(['Rational', 'Float']) if dy else 'Rational'})
                add({'op': 'setup', 'kind': 'planted', 'inst': inst})
                if rng.random() < 0.5:
                    injections(inst, x)
            elif r < 0.55:
                inst, x = gen_planted(rng, tier, large=large)
                mv = move_species(rng, inst, x)
                if mv is None:
                    continue
                inst2, ray = mv
                inst2 = decorate(rng, float_stream(rng, inst2))     # a formula instance renames the species, positions stay
                ray = reorder(inst2, ray)
                all_modes(inst2, 'wrong-side', ray=ray)
                add({'op': 'setup', 'kind': 'wrong-side', 'inst': inst2})
                if rng.random() < 0.4:
                    injections(inst2, [abs(v) for v in ray])
            elif r < 0.65:
                inst, x = gen_planted(rng, tier)
                inst2 = add_unbalanced_key(rng, inst)
                if inst2 is None:
                    continue
                inst2 = decorate(rng, float_stream(rng, inst2))
                all_modes(inst2, 'full-rank')
                add({'op': 'setup', 'kind': 'full-rank', 'inst': inst2})
            elif r < 0.85:
                # never large: CBC (called by chempy without a time limit) can run for minutes on 11+ species two-ray instances
                nul = rng.choice([2, 2, 3])          # 3: parameters with fractional coefficients get rescaled (`symb / cd`)
                # three-ray instances with integer / dyadic amounts only (CBC, called without time limit, wandered > 15 s on a 4-species
                # one-row instance with amounts 9/4, -13/7, 101/21: performance, notes finding 8)
                inst, x = gen_planted(rng, tier, want_nullity=nul, dyadic=(nul == 3))
                if sum(x) > 14:
                    continue
                inst = decorate(rng, float_stream(rng, inst))
                x = reorder(inst, x)
                all_modes(inst, 'multi', x=x)
                if rng.random() < 0.3:
                    add({'op': 'balance', 'kind': 'multi', 'mode': '1', 'inst': inst, 'x': x})
                add({'op': 'minimal', 'kind': 'multi', 'inst': inst, 'variant': 'output'})
                add({'op': 'minimal', 'kind': 'multi', 'inst': inst, 'variant': rng.choice(['double', 'planted'])})
                for _ in range(2):
                    add({'op': 'balanced_inst', 'kind': 'multi', 'inst': inst,
                         'params': [rat_json(Fraction(rng.randint(1, 9), rng.randint(1, 4))) for _ in range(4)],
                         'perturb': rng.random() < 0.3})
            else:
                # dyadic fractions only: the sub-instances the duplicate search tries are not planted, with mixed denominators their minimal integer
                # solution can have 6-digit coefficients and CBC (no time limit in chempy) then runs for minutes (notes, finding 10)
                inst, x = gen_planted(rng, tier, want_nullity=1 if large else rng.choice([1, 1, 2]), large=large, dyadic=True)
                r0, p0 = inst['reactants'], inst['products']
                dups = rng.sample(r0 + p0, rng.randint(1, min(2, len(r0) + len(p0))))
                r1 = r0 + [d for d in dups if d not in r0]
                p1 = p0 + [d for d in dups if d not in p0]
                rng.shuffle(r1)
                rng.shuffle(p1)
                inst2 = decorate(rng, dict(inst, reactants=r1, products=p1), allow_sets=False)
                # by construction a duplicate-free selection with a positive solution exists (the planted sides) and the brute force tries it
                add({'op': 'dup', 'kind': 'dup', 'inst': inst2, 'mode': 'None', 'selection_exists': True})
                if rng.random() < 0.4:
                    add({'op': 'dup', 'kind': 'dup', 'inst': inst2, 'mode': rng.choice(['True', 'False', '1', '1'])})
                if rng.random() < 0.3:
                    add({'op': 'balance', 'kind': 'dup-disallowed', 'mode': rng.choice(['True', 'False', 'None']), 'inst': inst2})
            if it % 9 == 4:
                # Substance.composition_keys by itself: entries without composition, and its skip_keys argument
                subs, ks = [], rng.sample(range(0, 40), rng.randint(1, 6))
                for nm in rng.sample(NAME_POOL, rng.randint(1, 5)):
                    subs.append([nm, None if rng.random() < 0.25 else [[k, rng.randint(1, 4)] for k in rng.sample(ks, rng.randint(0, len(ks)))]])
                add({'op': 'cks', 'kind': 'cks', 'substances': subs, 'skip': rng.sample(ks, rng.randint(1, len(ks)))})
            if it % 4 == 0:
                # a HISTORY: the same species names balanced several times in one process with different compositions /
                # different call paths; self-contained (replayable in a fresh process), judged call by call
                inst, x = gen_planted(rng, tier)
                names, nr0 = inst['reactants'] + inst['products'], len(inst['reactants'])
                calls = []
                for j in range(rng.randint(2, 4)):
                    if j:
                        inst, x = gen_planted(rng, tier, names=names, nr=nr0)
                    di = decorate(rng, inst)
                    if j < 2 or rng.random() < 0.8:     # at least two calls resolve the keys through the factory
                        di['via'] = rng.choice(['factory', 'string'])
                        di.pop('string_keys', None)
                        norm_inst(di)
                    calls.append({'inst': di, 'x': reorder(di, x), 'mode': rng.choice(['True', 'False', 'None'])})
                hist.append({'op': 'history', 'kind': 'history', 'calls': calls})
        return hist + cases      # self-contained histories first: a state-dependent failure then has a replay that reproduces alone

    # ---- model side ----------------------------------------------------------------------------------
    def model_case(self, c):
        op = c['op']
        inst = c.get('inst')
        if inst is not None:
            norm_inst(inst)
        if op == 'balance':
            mode = c['mode']
            kind = c['kind']
            if canon_mode(mode) == 'None':
                out = self.real(inst, mode)
                if out['ilp'] is None:
                    cand = {'numeric': [0] * len(inst['reactants'] + inst['products'])}   # never consulted: refused before the solver
                else:
                    import sympy
                    cand = {'numeric': [int(sympy.Integer(v)) for v in out['ilp']]}
            elif kind in ('planted', 'extra-key'):
                cand = {'numeric': c['x']}
            elif kind == 'wrong-side':
                cand = {'numeric': c['ray']}
            elif kind in ('full-rank', 'dup-disallowed'):
                cand = {'numeric': [0] * len(inst['reactants'] + inst['products'])}
            else:                                  # multi-ray, symbolic modes: the model is told which entries carry symbols
                out = self.real(inst, mode)
                if out['res'] is None:
                    cand = {'symbolic': ['sym'] * len(inst['reactants'] + inst['products'])}
                else:
                    d = OrderedDict(list(out['res'][0].items()) + list(out['res'][1].items()))
                    ent = []
                    for k in sum(eff(inst), []):
                        s = show_entry(d[k])
                        ent.append(s if s in ('sym', 'nan') else rat_json(Fraction(s)))
                    cand = {'symbolic': ent}
            return dict(call_fields(inst), op='balance', mode=mode, cand=cand)
        if op == 'balance_inj':
            return dict(call_fields(inst), op='balance', mode=c['mode'], cand={'numeric': c['cand']}, inject=True)
        if op == 'setup':
            return dict(call_fields(inst), op='setup')
        if op == 'minimal':
            out = self.real(inst, 'None')
            if out['res'] is None:
                return None
            x = [int(v) for v in list(out['res'][0].values()) + list(out['res'][1].values())]
            if c['variant'] == 'double':
                x = [2 * v for v in x]
            elif c['variant'] == 'planted':
                x = list(c.get('x') or x)
            A = out['A'] if out['A'] is not None else signed_matrix(inst)
            if sum(x) > 24 or len(x) > 8:
                return None
            return {'op': 'minimal', 'A': [[rat_json(e) for e in r] for r in A], 'x': x}
        if op == 'balanced_inst':
            import sympy
            out = self.real(inst, 'True')
            if out['res'] is None:
                return None
            vals = list(out['res'][0].values()) + list(out['res'][1].values())
            syms = sorted(set().union(*[sympy.sympify(v).free_symbols for v in vals]), key=str)
            sub = {s: sympy.Rational(*(p if isinstance(p, list) else [p, 1])) for s, p in zip(syms, c['params'])}
            x = []
            for v in vals:
                w = sympy.sympify(v).subs(sub)
                x.append(Fraction(int(w.p), int(w.q)))
            if c.get('perturb'):
                x[0] += 1
            return dict(call_fields(inst), op='balanced_inst', x=[rat_json(v) for v in x])
        if op in ('history', 'inject_nonlinear', 'ilp_direct'):
            return None
        if op == 'cks':
            return {'op': 'cks', 'substances': [[nm, comp or []] for nm, comp in c['substances']], 'raw': c['substances']}
        if op == 'dup':
            out = self.real_dup(inst, c['mode'])
            return {'op': 'dup', 'mode': c['mode'], 'allow': True, 'reactants': inst['reactants'], 'products': inst['products'],
                    'table': out['calls'], 'inst': inst}
        return c

    def impl(self, mc):
        op = mc['op']
        inst = mc.get('inst')
        if op == 'balance':
            if mc.get('inject'):
                return self.real(inst, mc['mode'], inject=mc['cand']['numeric'])['line']
            return self.real(inst, mc['mode'])['line']
        if op == 'setup':
            out = self.real(inst, 'None')
            if out['A'] is not None:
                return 'ok [' + ','.join('[' + ','.join(show_rat(e) for e in r) + ']' for r in out['A']) + ']'
            return out['line']
        if op == 'minimal':
            A = [[F(e) for e in r] for r in mc['A']]
            return 'false' if has_smaller(A, mc['x']) else 'true'
        if op == 'balanced_inst':
            A = signed_matrix(inst)
            x = [F(v) for v in mc['x']]
            return 'true' if all(sum(a * b for a, b in zip(r, x)) == 0 for r in A) else 'false'
        if op == 'dup':
            return self.real_dup(mc['inst'], mc['mode'])['line']
        if op == 'cks':
            from chempy import Substance
            subs = [Substance(nm, composition=None if comp is None else {int(a): F(b) for a, b in comp}) for nm, comp in mc['raw']]
            return '[' + ','.join(str(int(k)) for k in Substance.composition_keys(subs)) + ']'
        return '!unknown-op'

    def same(self, mc, io, mo):
        if io == 'TimeoutError':          # inconclusive (see real()): skipped, counted in the `timeout/...` buckets of the input distribution
            return True
        return io == mo

    # ---- the property on the real code ------------------------------------------------------------------
    def oracle(self, c):
        import sympy
        op, kind, inst = c['op'], c.get('kind'), c.get('inst')
        if op == 'inject_nonlinear':
            # whatever linsolve hands back, an answer must not be fabricated: a non-linear "parametrisation" has to be refused
            out = self.real(norm_inst(inst), c['mode'], inject='nonlinear')
            if out.get('timeout'):
                return None
            if out['res'] is not None or not isinstance(out['exc'], ValueError):
                return 'solver answer (x1**2, x1, ...) in mode %s: %s instead of a ValueError' % (c['mode'], out['line'][:120])
            return None
        if op == 'ilp_direct':
            return self._oracle_ilp(c)
        if op == 'cks':
            from chempy import Substance
            subs = [Substance(nm, composition=None if comp is None else {int(a): F(b) for a, b in comp}) for nm, comp in c['substances']]
            allk = sorted({int(a) for _, comp in c['substances'] for a, _ in (comp or [])})
            for skip in ((), tuple(c['skip'])):
                got = Substance.composition_keys(subs, skip_keys=skip) if skip else Substance.composition_keys(subs)
                if list(got) != [k for k in allk if k not in skip]:
                    return 'composition_keys(skip_keys=%s) = %s, the occurring keys are %s' % (skip, got, allk)
            return None
        if op == 'history':
            for j, call in enumerate(c['calls']):
                f = self._oracle_balance(dict(call, op='balance', kind='planted'), nocache=True)
                if f:
                    return 'call %d of %d in one process: %s' % (j + 1, len(c['calls']), f)
            return None
        if inst is None:
            return None
        norm_inst(inst)
        if op in ('setup', 'balance_inj', 'minimal', 'balanced_inst'):
            return None                      # the honest calls on the same instance are judged by its 'balance' cases
        comps = inst_comps(inst)
        keys = inst_keys(inst)
        if op == 'dup':
            out = self.real_dup(inst, c['mode'])
            if out.get('timeout'):
                return None
            if out['res'] is None:
                e = out['exc']
                if c['mode'] != 'None' and set(inst['reactants']) & set(inst['products']):
                    return None if isinstance(e, NotImplementedError) else 'allow_duplicates with mode %s raised %s' % (c['mode'], exc_name(e))
                # (identical species sets on both sides are refused by design: 'cannot balance: reactants and products identical')
                if isinstance(e, ValueError) and c.get('selection_exists') and set(inst['reactants']) != set(inst['products']):
                    return ('allow_duplicates gave up (%s) although a duplicate-free selection of the species with a positive solution exists'
                            % str(e)[:60])
                return None if isinstance(e, ValueError) else 'allow_duplicates raised %s: %s' % (exc_name(e), str(e)[:80])
            r, p = out['res']
            return self._judge(inst, 'None', r, p, comps, keys, dup=True)
        return self._oracle_balance(c)

    def _oracle_ilp(self, c):
        """the ILP helper called directly (its own interface): Rational entries and sympy Float entries (no `.q`: the mult = 1 fallback)"""
        import sympy
        import warnings
        import chempy.chemistry as cc
        A = signed_matrix(c['inst'])
        conv = (lambda q: sympy.Float(float(q))) if c['entries'] == 'Float' else (lambda q: sympy.Rational(q.numerator, q.denominator))
        M = sympy.MutableDenseMatrix([[conv(e) for e in r] for r in A])
        try:
            with warnings.catch_warnings():
                warnings.simplefilter('ignore')
                with time_limit():
                    out = cc._solve_balancing_ilp_pulp(M)
        except HarnessTimeout as e:
            self.n_timeouts += 1
            return None
        except Exception as e:
            return '_solve_balancing_ilp_pulp(%s matrix) raised %s: %s' % (c['entries'], exc_name(e), str(e)[:80])
        x = c['x']
        ilp = [Fraction(v).limit_denominator(10 ** 6) if v is not None else None for v in out]
        k = ilp[0] / x[0] if ilp and ilp[0] is not None else None
        if k is None or k < 1 or k.denominator != 1 or ilp != [k * v for v in x]:
            return '_solve_balancing_ilp_pulp(%s matrix) returned %s; every positive integer solution is a multiple of %s in column order' % (
                c['entries'], [str(v) for v in ilp], x)
        return None

    def _oracle_balance(self, c, nocache=False):
        kind, inst = c.get('kind'), norm_inst(c['inst'])
        comps = inst_comps(inst)
        keys = inst_keys(inst)
        mode = c['mode']
        out = self.real(inst, mode, nocache=nocache)
        mode = canon_mode(mode)            # `underdetermined=1` must behave as None
        if out.get('timeout'):
            return None
        if mode == 'None' and kind == 'planted' and out['ilp'] is not None:
            # the ILP helper's list is consumed POSITIONALLY (entry i = column i of A = i-th species): on a single ray the
            # minimal positive integer solution is the planted vector itself, so the helper must return it in column order
            ilp = [Fraction(v).limit_denominator(10**6) if v is not None else None for v in out['ilp']]
            k = ilp[0] / c['x'][0] if ilp and ilp[0] is not None else None
            if k is None or k < 1 or k.denominator != 1 or ilp != [k * v for v in c['x']]:
                return ('_solve_balancing_ilp_pulp returned %s for the %d columns of A; every positive integer solution is a multiple '
                        'of %s in column order' % ([str(v) for v in ilp], len(c['x']), c['x']))
        if out['res'] is None:
            e = out['exc']
            if not isinstance(e, ValueError):
                return 'mode %s raised %s (%s), only ValueError is a refusal' % (mode, exc_name(e), str(e)[:80])
            if kind == 'planted':
                return 'single-ray instance with positive solution %s refused in mode %s: %s' % (c['x'], mode, str(e)[:60])
            if kind == 'extra-key':         # a key that only a non-participating table entry has: chempy refuses (false refusal, allowed)
                return None
            if kind == 'multi' and mode != 'False':
                return 'instance with a positive solution %s refused in mode %s: %s' % (c['x'], mode, str(e)[:60])
            return None
        r, p = out['res']
        if kind in ('wrong-side', 'full-rank', 'dup-disallowed'):
            return 'no positive balance exists / duplicates not allowed, yet mode %s returned %s -> %s' % (mode, dict(r), dict(p))
        f = self._judge(inst, mode, r, p, comps, keys)
        if f:
            return f
        vals = list(r.values()) + list(p.values())
        if kind in ('planted', 'extra-key') and [show_entry(v) for v in vals] != [str(v) for v in c['x']]:
            return 'single-ray instance: mode %s returned %s, the unique minimal solution is %s' % (mode, vals, c['x'])
        if kind == 'multi' and mode == 'False':
            return 'two-ray instance accepted in mode False: %s' % vals
        if mode == 'None':
            x = [int(v) for v in vals]
            if sum(x) <= 24 and len(x) <= 8 and has_smaller(signed_matrix(inst), x):
                return 'mode None returned %s (sum %d) but a positive balancing vector with smaller sum exists' % (x, sum(x))
        return None

    def _judge(self, inst, mode, r, p, comps, keys, dup=False):
        import sympy
        if not dup:
            er, ep = eff(inst)
            if list(r.keys()) != er or list(p.keys()) != ep:
                return 'key sets differ from the species given: %s -> %s' % (list(r.keys()), list(p.keys()))
        else:
            if not set(r) <= set(inst['reactants']) or not set(p) <= set(inst['products']) or set(r) & set(p):
                return 'allow_duplicates: keys %s -> %s not a duplicate-free selection of the species given' % (list(r), list(p))
        vals = [sympy.sympify(v) for v in list(r.values()) + list(p.values())]
        for ck in keys:
            lhs = sum(sympy.sympify(v) * sympy.Rational(comps[k].get(ck, 0).numerator, comps[k].get(ck, 0).denominator) for k, v in r.items())
            rhs = sum(sympy.sympify(v) * sympy.Rational(comps[k].get(ck, 0).numerator, comps[k].get(ck, 0).denominator) for k, v in p.items())
            if sympy.expand(lhs - rhs) != 0:
                return 'component %s not balanced: %s vs %s (mode %s, %s -> %s)' % (ck, lhs, rhs, mode, dict(r), dict(p))
        numeric = all(not v.free_symbols for v in vals)
        if mode in ('False', 'None') and not numeric:
            return 'mode %s returned symbolic coefficients %s' % (mode, vals)
        if numeric:
            if not all(v.is_Integer and v > 0 for v in vals):
                return 'coefficients not all positive integers: %s (mode %s)' % (vals, mode)
            if reduce(gcd, [int(v) for v in vals]) != 1:
                return 'coefficients not coprime: %s (mode %s)' % (vals, mode)
            if mode == 'None' and not all(type(v) is int for v in list(r.values()) + list(p.values())):
                return 'mode None must return python ints'
        return None

    def _timed_out(self, c):
        inst = c.get('inst')
        if inst is None or 'mode' not in c and c.get('op') not in ('setup', 'minimal', 'balanced_inst'):
            return False
        if c.get('op') == 'dup':
            out = self._cache.get(json.dumps(['dup', inst, c['mode']], sort_keys=True))
        else:
            mode = c.get('mode') or {'setup': 'None', 'minimal': 'None', 'balanced_inst': 'True'}.get(c.get('op'))
            inj = c.get('cand') if c.get('op') == 'balance_inj' else ('nonlinear' if c.get('op') == 'inject_nonlinear' else None)
            out = self._cache.get(json.dumps([inst, mode, inj, False], sort_keys=True))
        return bool(out and out.get('timeout'))

    def classify(self, c):
        if self._timed_out(c):
            return 'timeout/%s/%s' % (c.get('op'), c.get('kind'))
        via = (c.get('inst') or {}).get('via', 'dict') if c.get('op') == 'balance' else ''
        return '%s/%s/%s%s' % (c.get('op'), c.get('kind'), c.get('mode', '-'), '/' + via if via else '')


PROPERTY = C02()
