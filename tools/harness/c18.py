"""C18 — ionic strength and Debye-Hueckel terms follow their definitions in any units.

Correspondence (model vs real code, same inputs):
  * ionic_strength: list form and dict form (keys = formulas), driven exactly (fractions.Fraction vs Rat: identical text), with
    floats and with `quantities` arrays (Float model, 1e-9); warning flag compared (captured with a filter on category and message);
    the rejections (length mismatch, no entries, empty mapping, key with white space, unparsable key) by exception class.
  * A and B on every code path (hard-coded factor / physical constants; no units / units object / b0 defaulted; constants as plain
    floats or as `default_constants`), the model being evaluated in a RANDOM unit system (magnitudes of metre, kelvin, mole,
    kilogram, second, ampere), the real result converted to SI: A must be the same number, B the SI number / metre.
  * limiting / extended / Davies log-gamma (explicit and default arguments, with and without units), the three activity products
    and the two callable classes (with IndexError for a short charge sequence).
  * op `constants`: the generated constants equal those of the running interpreter (`chempy.units.default_constants`) and the
    hard-coded factors equal A(1,1,1,1), B(1,1,1,1).
Oracle (real code only; formulas typed here from the textbook definitions, constants typed from CODATA 2006):
  I = 1/2 sum b z^2 (exact for Fractions), invariance under a permutation / a merge of two equal-charge entries / scaling,
  warning iff not neutral (outside the stated tolerance band), charges of the dict form from a hand-written table;
  A = (2 pi N_A rho b0)^(1/2) (e^2/(4 pi eps0 eps_r k T))^(3/2), B = (2 e^2 N_A rho b0/(eps0 eps_r k T))^(1/2) on every path and
  the paths against each other (1e-9); ln gamma formulas; a -> 0 and I = 0 limits; products = exp(sum nu ln gamma).
  Vectorised molalities (one numpy array per ion: list of rows, k x m array, Quantity array, list of Quantity rows, dict of rows) against
  the sample-wise scalar calls; UncertainQuantity molalities; chempy.units.allclose called directly on every argument shape its branches
  distinguish, against the definition |a-b| <= rtol|a| + atol; the base class call returns None.
  Every real call of the oracle goes through `observed`: the arguments must be unchanged after the call (value-level snapshot of
  lists, dicts, arrays, scalar quantities) and a second call on the SAME objects must reproduce value, exception class and warning;
  the permuted ionic-strength call is built from the same molality objects, followed by the original order once more.
"""
import math, struct, warnings
from fractions import Fraction
from types import SimpleNamespace
from lib.framework import Property
from .util import *

# ---- textbook side (independent of chempy and of the Lean model) ---------------------------------------------------------
E_CH = 1.602176487e-19      # C            CODATA 2006 (the edition shipped with `quantities`)
N_AV = 6.02214179e23        # 1/mol
EPS0 = 8.854187817e-12      # F/m
K_B = 1.3806504e-23         # J/K


def A_textbook(eps, T, rho, b0=1.0):
    return math.sqrt(2 * math.pi * N_AV * rho * b0) * (E_CH ** 2 / (4 * math.pi * EPS0 * eps * K_B * T)) ** 1.5


def B_textbook(eps, T, rho, b0=1.0):
    return math.sqrt(2 * E_CH ** 2 * N_AV * rho * b0 / (EPS0 * eps * K_B * T))


def lg_limiting(I, z, A):
    return -A * z * z * math.sqrt(I)


def lg_extended(I, z, a, A, B, C):
    return -A * z * z * math.sqrt(I) / (1 + B * a * math.sqrt(I)) + C * I


def lg_davies(I, z, A, C):
    return -A * z * z * (math.sqrt(I) / (1 + math.sqrt(I)) + C * I)


# formula -> charge, typed by hand (NOT parsed by chempy)
IONS = [('Na+', 1), ('K+', 1), ('H+', 1), ('NH4+', 1), ('Li+', 1), ('Ag+', 1), ('Cl-', -1), ('OH-', -1), ('NO3-', -1), ('F-', -1),
        ('HCO3-', -1), ('ClO4-', -1), ('Mg+2', 2), ('Ca+2', 2), ('Fe+2', 2), ('Cu+2', 2), ('UO2+2', 2), ('SO4-2', -2), ('CO3-2', -2), ('HPO4-2', -2),
        ('S-2', -2), ('Al+3', 3), ('Fe+3', 3), ('La+3', 3), ('PO4-3', -3), ('Fe(CN)6-3', -3), ('Th+4', 4), ('Ce+4', 4), ('Zr+4', 4),
        ('Fe(CN)6-4', -4), ('P2O7-4', -4), ('H2O', 0), ('NH3', 0), ('CO2(aq)', 0), ('e-', -1), ('Na+(aq)', 1), ('SO4-2(aq)', -2),
        ('alpha-Al+3', 3)]
ION_CHARGE = dict(IONS)
BY_CHARGE = {}
for _f, _z in IONS:
    BY_CHARGE.setdefault(_z, []).append(_f)

MOLAL_UNITS = {'molal': 1.0, 'mol/kg': 1.0, 'mmol/kg': 1e-3, 'mol/g': 1e3, 'umol/g': 1e-3}
RHO_UNITS = {'kg/m3': 1.0, 'g/cm3': 1e3, 'kg/dm3': 1e3, 'g/dm3': 1.0}
FN_ARITY = {'aNum': 4, 'bNum': 4}
WARN_MSG = 'Molalities not charge neutral'


def f2b(x):
    return struct.unpack('<Q', struct.pack('<d', float(x)))[0]


def b2f(s):
    return struct.unpack('<d', struct.pack('<Q', int(s)))[0]


def fr(v):
    return Fraction(*v) if isinstance(v, list) else Fraction(v)


def _unit(u, name):
    return {'molal': u.molal, 'mol/kg': u.mol / u.kg, 'mmol/kg': u.mmol / u.kg, 'mol/g': u.mol / u.gram, 'umol/g': u.umol / u.gram,
            'kg/m3': u.kg / u.m ** 3, 'g/cm3': u.gram / u.cm3, 'kg/dm3': u.kg / u.dm3, 'g/dm3': u.gram / u.dm3}[name]


def captured(f, *a, **k):
    """(result | exception class name, was chempy's neutrality warning issued)"""
    with warnings.catch_warnings(record=True) as w:
        warnings.simplefilter('always')
        try:
            r = f(*a, **k)
        except Exception as e:
            r = e
    hit = [x for x in w if issubclass(x.category, UserWarning) and not issubclass(x.category, DeprecationWarning)
           and str(x.message).startswith(WARN_MSG)]
    return r, bool(hit)


def snapshot(x):
    """value-level structural copy of an argument or result (to detect in-place modification / irreproducibility)"""
    import numpy as np
    if isinstance(x, dict):
        return ('dict', [(k, snapshot(v)) for k, v in x.items()])
    if isinstance(x, (list, tuple)):
        return (type(x).__name__, [snapshot(v) for v in x])
    import quantities as pq
    if isinstance(x, pq.Quantity):
        unc = getattr(x, 'uncertainty', None)
        return ('quantity', repr(np.array(x.magnitude, dtype=float).tolist()), x.dimensionality.string,
                None if unc is None else repr(np.array(unc.magnitude, dtype=float).tolist()))
    if isinstance(x, np.ndarray):
        return ('ndarray', repr(x.tolist()))
    if isinstance(x, SimpleNamespace):
        return ('namespace', sorted((k, snapshot(v)) for k, v in vars(x).items()))
    if isinstance(x, Exception):
        return ('raised', type(x).__name__)
    if isinstance(x, (int, float, complex, Fraction, str, bool, type(None))) or hasattr(x, 'dtype'):
        return repr(x)
    return ('object', id(x))          # units / constants name spaces: identity only


def _first_diff(a, b, path='args'):
    if type(a) != type(b) or not isinstance(a, (tuple, list)) or len(a) != len(b):
        return '%s: %s -> %s' % (path, str(a)[:80], str(b)[:80])
    for i, (x, y) in enumerate(zip(a, b)):
        if x != y:
            return _first_diff(x, y, '%s[%d]' % (path, i))
    return path


def observed(f, *a, **k):
    """call f twice on the SAME argument objects: (result | exception, warned, problem).  problem is None unless the call changed
    one of its arguments in place or the second call did not reproduce the first (value, exception class or warning)."""
    s0 = snapshot((a, k))
    r, w = captured(f, *a, **k)
    s1 = snapshot((a, k))
    if s1 != s0:
        return r, w, 'the call modified its arguments in place (%s)' % _first_diff(s0, s1)
    r2, w2 = captured(f, *a, **k)
    if snapshot(r2) != snapshot(r) or w2 != w:
        return r, w, ('a second call with the same argument objects gave %s%s, the first %s%s'
                      % (str(snapshot(r2))[:80], ' + warning' if w2 else '', str(snapshot(r))[:80], ' + warning' if w else ''))
    if snapshot((a, k)) != s0:
        return r, w, 'the second call modified its arguments in place'
    return r, w, None


class Recorder:
    """invoker used by the oracles: every real call goes through `observed`; the first problem is kept"""
    def __init__(self):
        self.problem = None

    def cap(self, f, *a, **k):
        r, w, p = observed(f, *a, **k)
        if p and not self.problem:
            self.problem = '%s: %s' % (getattr(f, '__name__', type(f).__name__), p)
        return r, w

    def __call__(self, f, *a, **k):
        r, _ = self.cap(f, *a, **k)
        if isinstance(r, Exception):
            raise r
        return r


def _plain(f, *a, **k):
    return f(*a, **k)


class C18(Property):
    pid = 'C18'
    title = ('ionic strength = 1/2 sum b z^2 (charges from the formulas for a mapping), invariant under permutation and merging, linear, '
             'warning iff not neutral; Debye-Hueckel A and B from physical constants agree with the built-in numeric path for all T, '
             'eps_r, rho and in any units; limiting/extended/Davies log-gamma equal their formulas; activity products = exp(sum nu ln gamma)')
    props_module = 'ChemModel.Props.C18'
    build_modules = ('ChemModel.Gen.FnElectrolytes', 'ChemModel.Model.Electrolytes', 'ChemModel.Basic.Proto')
    driver = 'ChemModel/Driver/C18.lean'
    n_quick, n_thorough = 2000, 30000
    float_tol = 1e-9
    rule = ('ion sets of 1..8 entries with charges -4..4 (0 included), molalities log-uniform over 1e-9..1e3 (12 decades) as exact '
            'decimals (Fractions), floats (dyadic in the neutral cases so that float sums are exact), one quantities array, a list of scalar Quantity objects or a dict of them, in molal / mmol/kg / mol/g / umol/g; 45 % exactly neutral, 15 % inside or '
            'next to the tolerance band (|net| = 0.3, 0.5, 2, 10 x tot*1e-14), rest not neutral; list form, dict form keyed by 38 formulas '
            '(states, prefixes, bracketed charges), 55 % of the dict cases with `substances=` (string of names or mapping of Substance objects; '
            'same order / permuted / superset / one key missing) or `substance_factory=` (labels instead of formulas), warn on/off; malformed: different lengths, no entries, empty mapping, '
            'keys with blanks / empty / unknown element; T 250..650 K, eps_r 5..100, rho 500..1500 kg/m3 (given in 4 density units), b0 '
            '0.1..10 mol/kg or default; model unit system with metre, kelvin, mole, kilogram, second, ampere magnitudes log-uniform in '
            '1e-3..1e3; log-gamma: I over 1e-9..1e3 and 0, z -4..4, a 0 or 1e-10..1e-9 m, C in {0, -0.3, random}; activity products with '
            '1..5 species, stoichiometry -3..3 incl. 0 (spectators), charges -4..4 incl. 0 (uncharged species), C of both signs, 12 % with a too short charge sequence. A case is non-trivial when it is a distinct JSON value.')
    assumptions = ('Float instantiation of the generated functions vs CPython/numpy doubles: relative tolerance 1e-9',
                   'exact (Fraction vs Rat) ionic strength: identical text; the warning flag is compared unless |net| lies within 1e-6 '
                   'relative of the coded threshold (Python evaluates the threshold in floating point)',
                   'the translator pyfn2lean.py plus the two text-level desugarings of tools/extract/electrolytes.py (x op= e; inlining of _get_b0)',
                   'values of the physical constants: the doubles stored in the installed quantities package (CODATA 2006), read by the '
                   'extractor and re-checked against the running interpreter by op `constants`',
                   'quantities (unit algebra, simplification) is modelled as multiplication by unit magnitudes in an arbitrary unit system',
                   'formula parser (charges of the dict form) is the C01 model; str.split() is modelled for ASCII white space',
                   'Mathlib Real.rpow / Real.sqrt / Real.exp / Real.pi as the meaning of ** 0.5, ** (one/2), exp, pi',
                   'oracle constants typed from CODATA 2006; textbook-vs-code tolerance 1e-6 (R vs k_B*N_A differ by 5.7e-8 in quantities)')
    clauses_without_theorem = (
        'molalities "with units": Quantity inputs (array, list or dict of scalar quantities) are decided by correspondence + oracle only; '
        'the theorems stand in with linear_scaling (change of the molality unit) and the unit-system theorems of A and B',
        'the real quantities package (unit algebra, simplification, in-place arithmetic): modelled as multiplication by unit magnitudes',
        'control flow of ionic_strength (length check, accumulation loops, dict branch, `if warn`) and the final `return d <= lim` of allclose '
        'are hand-modelled (pinned anchors + guards); only the expressions b*z**2, b*z, tot/2, tot*0, tot*1e-14, abs(a-b), abs(a)*rtol+atol '
        'are translated from the source',
        'the loops of the three activity products and the two callable classes are hand-modelled (text pinned by activity_product_sources_guard) (nr * log_gamma(z[idx]), every species incl. '
        'z = 0 and coefficient 0 — theorem activity_product_neutral_species is about that model): a skipped species in the Python is found by correspondence + oracle only',
        'backend= of A / B / log-gamma / products (numpy, math, sympy): the translator maps every backend to the same Lean text, so no theorem; '
        'the oracle evaluates every such case under math and sympy as well and requires agreement to 1e-12',
        'inputs are not modified and repeated calls reproduce (histories): oracle only — the functional model cannot express aliasing',
        'UncertainQuantity molalities (allclose unwraps them, units.py:524-527): magnitudes only, by correspondence + oracle; the propagated '
        'uncertainty of the result is not part of the property and not checked',
        'allclose on nested lists, on arrays of more than one dimension and with a list-valued atol: not modelled (numbers and 1-d arrays in '
        'every broadcast combination, flat lists and list-vs-number are modelled: allcloseB / allcloseList, theorem allclose_broadcast_spec); '
        'the control flow of its array branch is hand-modelled behind the text guard allclose_array_branch_guard',
        'float rounding: no_warning_for_rounded_test proves (standard model, every operation incl. those of the neutrality test rounded, '
        'u <= 2^-53, <= 8 ions, integer charges) that a paper-neutral composition never triggers the warning; that IEEE doubles satisfy the '
        'standard model (no overflow / underflow / subnormals) is assumed',
        'values of the physical constants: constants_are_codata_2006 pins them to the printed CODATA-2006 decimals; that these are the right '
        'physical values is outside the model',
    )
    anchors = (('chempy/electrolytes.py', 'ionic_strength'), ('chempy/units.py', 'allclose'),
               ('chempy/electrolytes.py', 'limiting_activity_product'), ('chempy/electrolytes.py', 'extended_activity_product'),
               ('chempy/electrolytes.py', 'davies_activity_product'), ('chempy/electrolytes.py', '_ActivityProductBase'),
               ('chempy/electrolytes.py', 'LimitingDebyeHuckelActivityProduct'),
               ('chempy/electrolytes.py', 'ExtendedDebyeHuckelActivityProduct'), ('chempy/chemistry.py', 'Substance.charge'))

    # ================================================================================================ generation
    def generate(self, rng, n, tier):
        cases = [{'kind': 'constants'}]
        gens = [(0.36, self._gen_is), (0.20, self._gen_ab), (0.17, self._gen_lg), (0.15, self._gen_ap), (0.07, self._gen_vec),
                (0.05, self._gen_ac)]
        while len(cases) < n:
            r = rng.random()
            acc = 0.0
            for p, g in gens:
                acc += p
                if r < acc:
                    cases.append(g(rng))
                    break
        return cases

    @staticmethod
    def _dec(rng, lo, hi, digits=4):
        """log-uniform decimal with `digits` significant digits, as a string"""
        x = math.exp(rng.uniform(math.log(lo), math.log(hi)))
        return '%.*g' % (digits, x)

    def _gen_is(self, rng):
        r = rng.random()
        form = ('list' if r < 0.33 else 'dict' if r < 0.56 else 'units-list' if r < 0.66 else 'units-qlist' if r < 0.78
                else 'units-dict' if r < 0.90 else 'units-uq' if r < 0.95 else 'units-uqlist')
        num = 'float' if form.startswith('units') else ('rat' if rng.random() < 0.6 else 'float')
        warn = rng.random() < 0.85
        c = {'kind': 'is', 'form': form, 'num': num, 'warn': warn}
        m = rng.random()
        if m < 0.10:                                   # malformed
            return self._gen_is_malformed(rng, c)
        k = rng.randint(1, 8)
        zs = [rng.choice([-4, -3, -2, -1, -1, 0, 1, 1, 2, 3, 4]) for _ in range(k)]
        if rng.random() < 0.4 and k >= 2:              # plant two entries of the same charge (merge)
            zs[1] = zs[0]
        bs = [Fraction(self._dec(rng, 1e-9, 1e3)) for _ in range(k)]
        mode = rng.random()
        dyadic = num == 'float' and mode < 0.60 and rng.random() < 0.5
        decimal = num == 'float' and mode < 0.45 and not dyadic     # neutral "on paper" (decimal arithmetic), rounded by float()
        if dyadic:
            # floats on which every sum of the code is exact (integers * 2^-j, one j per case): "neutral" is then exactly
            # neutral in floating point too, so the oracle can state the warning for float / Quantity inputs as well
            j = rng.randint(10, 30)
            bs = [Fraction(rng.randint(1, 10 ** rng.randint(1, 6)), 2 ** j) for _ in range(k)]
        target = None
        if mode < 0.60 and k >= 2:
            # make it neutral (or nearly): solve for the last entry with a non-zero charge of the right sign
            net = sum(b * z for b, z in zip(bs[:-1], zs[:-1]))
            if net != 0:
                zl = rng.choice([1, 2, 4] if (dyadic or decimal) else [1, 2, 3, 4]) * (-1 if net > 0 else 1)
                zs[-1] = zl
                bs[-1] = -net / zl
                tot = sum(b * z * z for b, z in zip(bs, zs))
                if mode >= 0.45:                        # next to / inside the tolerance band
                    fac = rng.choice([Fraction(3, 10), Fraction(1, 2), Fraction(2), Fraction(10)])
                    delta = fac * tot * Fraction(1, 10 ** 14) / abs(zl)
                    bs[-1] = bs[-1] + (delta if rng.random() < 0.5 else -delta)
                    target = 'band*%s' % fac
                    dyadic = False
                else:
                    target = 'neutral'
        if target == 'neutral' and k <= 7 and rng.random() < 0.45:
            # NON-neutral by a trace ion: relative imbalance |sum b z| / sum b z^2 log-uniform over 1e-13 .. 1e-2
            tot = sum(b * z * z for b, z in zip(bs, zs))
            zt = rng.choice([-3, -2, -1, 1, 2, 3])
            ratio = Fraction(self._dec(rng, 1e-13, 1e-2, 3))
            pos = rng.randint(0, len(bs))
            bs.insert(pos, ratio * tot / abs(zt))
            zs.insert(pos, zt)
            k += 1
            target = 'trace'
            dyadic = decimal = False
        c['target'] = target or 'free'
        c['dyadic'] = bool(dyadic)
        if form in ('dict', 'units-dict'):
            keys = []
            for i, z in enumerate(zs):
                pool = [f for f in BY_CHARGE[z] if f not in keys]
                if not pool:
                    zs = zs[:i]
                    bs = bs[:i]
                    break
                keys.append(rng.choice(pool))
            if not keys:
                keys, zs, bs = ['Na+'], [1], bs[:1] or [Fraction(1)]
            c['keys'] = keys
            zs = zs[:len(keys)]
            bs = bs[:len(keys)]
            self._gen_substances(rng, c, zs)
        c['z'] = zs
        # the decimal values sum to net charge exactly 0, the floats passed to the code only up to rounding (<= 8 integer charges):
        # the tolerance of the neutrality test exists for exactly this class, so "no warning" is claimed (theorem no_warning_under_rounding)
        c['paper_neutral'] = bool(num == 'float' and not c['dyadic'] and len(zs) >= 2 and sum(b * z for b, z in zip(bs, zs)) == 0
                                  and all(b >= 0 for b in bs))
        if num == 'rat':
            c['b'] = [rat_json(b) for b in bs]
        else:
            c['b'] = [float(b) for b in bs]
        if form.startswith('units'):
            c['unit'] = rng.choice(sorted(MOLAL_UNITS))
        k = len(zs)
        perm = list(range(k))
        rng.shuffle(perm)
        c['perm'] = perm
        c['scale'] = rat_json(Fraction(self._dec(rng, 1e-3, 1e3, 3)))
        return c

    LABELS = ['ion_1', 'ion_2', 'cation', 'anion', 'X', 'Y', 'M(aq)', 'L', 'iron(III)', 'sulfate', 'a', 'b+']
    SPACED = ['ion 1', 'hexa aqua iron', 'my ion\t2']

    def _gen_substances(self, rng, c, zs):
        """the documented `substances=` (mapping name -> Substance, or a string of names) and `substance_factory=` arguments:
        same order / another order / a superset / a key missing; keys are formulas or free labels whose charge only the
        mapping (or the factory) knows"""
        r = rng.random()
        keys = c['keys']
        if r < 0.45:
            return
        extra_pool = [f for f, _ in IONS if f not in keys]
        mode = rng.choice(['same', 'perm', 'perm', 'super', 'super', 'missing'])

        def arrange(pairs, extras):
            pairs = list(pairs)
            if mode in ('perm', 'super', 'missing'):
                rng.shuffle(pairs)
            if mode == 'super':
                for e in extras:
                    pairs.insert(rng.randint(0, len(pairs)), e)
            if mode == 'missing':
                pairs = [p for p in pairs if p[0] != keys[-1]]
            return pairs

        kind = rng.choice(['names', 'mapping-formula', 'mapping-label', 'factory-label'])
        extras = [(f, ION_CHARGE[f]) for f in rng.sample(extra_pool, rng.randint(1, 3))]
        if kind == 'names':
            pairs = arrange(zip(keys, zs), extras)
            seps = [rng.choice([' ', '  ', '\t', '\n', ' \t ']) for _ in pairs]
            c['subs'] = {'kind': 'names', 's': ''.join(k + sp for (k, _), sp in zip(pairs, seps)).rstrip() if rng.random() < 0.7
                         else ' ' + ''.join(k + sp for (k, _), sp in zip(pairs, seps))}
        elif kind == 'mapping-formula':
            c['subs'] = {'kind': 'mapping', 't': [[k, z] for k, z in arrange(zip(keys, zs), extras)], 'via': 'formula'}
        else:
            pool = self.LABELS + (self.SPACED if kind == 'mapping-label' else [])
            labels = rng.sample(pool, len(keys)) if len(keys) <= len(pool) else None
            if labels is None:
                return
            c['keys'] = labels
            c['alias'] = dict(zip(labels, zs))
            keys = labels
            xl = [(l, rng.choice([-2, -1, 1, 2, 3])) for l in self.LABELS if l not in labels][:2]
            if kind == 'mapping-label':
                c['subs'] = {'kind': 'mapping', 't': [[k, z] for k, z in arrange(zip(labels, zs), xl)], 'via': 'charge'}
            else:
                c['factory'] = [[k, z] for k, z in arrange(zip(labels, zs), xl)]
                if rng.random() < 0.4 and mode != 'missing':
                    names = [k for k, _ in c['factory']]
                    c['subs'] = {'kind': 'names', 's': ' '.join(names)}
        c['smode'] = kind + ':' + mode
        if mode == 'missing':
            c['target'] = 'malformed'
            c['mal'] = 'key missing from substances'

    def _gen_is_malformed(self, rng, c):
        c['target'] = 'malformed'
        c['perm'] = []
        c['scale'] = 1
        one = (lambda: 1) if c['num'] == 'rat' else (lambda: 1.0)
        if c['form'] in ('dict', 'units-dict'):
            c['form'] = 'dict'
            c['num'] = 'rat' if rng.random() < 0.5 else 'float'
            one = (lambda: 1) if c['num'] == 'rat' else (lambda: 1.0)
            which = rng.choice(['empty', 'blank-key', 'empty-key', 'unknown', 'two-in-one', 'lower', 'multi-sign', 'slash',
                                'nbsp', 'thin-space', 'ideographic', 'nel'])
            keys = {'empty': [], 'blank-key': ['Na+', 'Cl -'], 'empty-key': ['Na+', ''], 'unknown': ['Na+', 'Xx-'],
                    'two-in-one': ['Mg+2', 'Na+ Cl-'], 'lower': ['na+', 'Cl-'], 'multi-sign': ['Fe+++', 'Cl-'],
                    'slash': ['Cl-', 'Fe/3+'],
                    # str.split() also splits at the non-ASCII white space of str.isspace(): the key falls apart -> KeyError
                    'nbsp': ['Mg+2', 'Na+\u00a0Cl-'], 'thin-space': ['Mg+2', 'Na+\u2009Cl-'], 'ideographic': ['K+\u3000', 'Cl-'],
                    'nel': ['K+', 'Na+\u0085']}[which]
            c.update({'keys': keys, 'z': [], 'b': [one() for _ in keys], 'mal': which})
            return c
        c['form'] = 'list'
        which = rng.choice(['short-z', 'short-b', 'empty'])
        k = rng.randint(1, 4)
        b = [one() for _ in range(k)]
        z = [rng.choice([-2, -1, 1, 2]) for _ in range(k)]
        if which == 'short-z':
            z = z[:-1]
        elif which == 'short-b':
            b = b[:-1]
        else:
            b, z = [], []
        c.update({'b': b, 'z': z, 'mal': which})
        return c

    def _gen_ab(self, rng):
        lu = lambda lo, hi: float(self._dec(rng, lo, hi, 6))
        path = rng.choice(['num', 'num', 'num_units', 'num_units_b0', 'const_plain', 'const_plain', 'const_units', 'const_units_b0'])
        c = {'kind': 'ab', 'which': rng.choice(['A', 'B']), 'path': path,
             'eps': float('%.6g' % rng.uniform(5, 100)), 'T': float('%.6g' % rng.uniform(250, 650)),
             'rho': float('%.6g' % rng.uniform(500, 1500)), 'b0': 1.0 if rng.random() < 0.4 else lu(0.1, 10),
             'rho_unit': rng.choice(sorted(RHO_UNITS)), 'b0_unit': rng.choice(sorted(MOLAL_UNITS)),
             'base': {k: lu(1e-3, 1e3) if rng.random() < 0.8 else 1.0 for k in ('m', 'K', 'mol', 'kg', 's', 'A')},
             'pass_units': rng.random() < 0.5}
        if path.endswith('_b0'):
            c['b0'] = 1.0
        return c

    def _gen_lg(self, rng):
        lu = lambda lo, hi: float(self._dec(rng, lo, hi, 6))
        f = rng.choice(['limiting', 'extended', 'davies'])
        IS = 0.0 if rng.random() < 0.08 else lu(1e-9, 1e3)
        c = {'kind': 'lg', 'f': f, 'IS': IS, 'z': rng.choice([-4, -3, -2, -1, 0, 1, 2, 3, 4]),
             'A': float('%.6g' % rng.uniform(0.3, 4.0)), 'B': lu(1e9, 1e10),
             'a': 0.0 if rng.random() < 0.15 else lu(1e-10, 1e-9),
             'C': rng.choice([0.0, -0.3, 0.1, float('%.4g' % rng.uniform(-0.5, 0.5))]),
             'I0': 1.0 if rng.random() < 0.5 else lu(0.1, 10),
             'defaults': rng.random() < 0.35, 'units': rng.random() < 0.3}
        if c['defaults']:
            c['I0'] = 1.0
            if f == 'extended' and rng.random() < 0.5:
                c['C'] = 0.0
            if f == 'davies' and rng.random() < 0.5:
                c['C'] = -0.3
        return c

    def _gen_ap(self, rng):
        lu = lambda lo, hi: float(self._dec(rng, lo, hi, 6))
        f = rng.choice(['lim', 'ext', 'dav', 'cls_lim', 'cls_ext'] * 4 + ['cls_base'])
        k = rng.randint(1, 5)
        # stoichiometries include uncharged species (z = 0, any coefficient) and spectators (coefficient 0, any charge)
        stoich = [float(rng.choice([-3, -2, -1, 0, 1, 1, 2, 3])) for _ in range(k)]
        z = [float(rng.choice([-4, -3, -2, -1, 0, 0, 1, 2, 3, 4])) for _ in range(k)]
        a = [lu(1e-10, 1e-9) for _ in range(k)]
        short = rng.random() < 0.12
        c = {'kind': 'ap', 'f': f, 'IS': lu(1e-6, 3.0), 'stoich': stoich, 'z': z, 'a': a,
             'T': float('%.6g' % rng.uniform(250, 650)), 'eps': float('%.6g' % rng.uniform(5, 100)),
             'rho': float('%.6g' % rng.uniform(500, 1500)),
             'C': rng.choice([0.0, -0.3, 0.1, -0.1, 0.3, float('%.4g' % rng.uniform(-0.5, 0.5))]), 'short': short}
        if f == 'cls_base':
            c['c'] = [lu(1e-6, 1.0) for _ in range(k)]
            c['short'] = False
        elif f.startswith('cls'):
            cc = [lu(1e-6, 1.0) for _ in range(k)]
            if rng.random() < 0.5 and k >= 2 and z[-1] != 0:      # make the molalities neutral (exactly, when representable)
                net = sum(x * y for x, y in zip(cc[:-1], z[:-1]))
                if net * z[-1] < 0:
                    cc[-1] = -net / z[-1]
            c['c'] = cc
            if f == 'cls_ext' and rng.random() < 0.3:
                c['C'], c['C_given'] = 0.0, False          # C left out: default of extended_activity_product through *self.args
            c['short'] = False          # ionic_strength would raise ValueError first (lengths)
            if short:                   # instead: stoichiometry longer than the charges
                c['stoich'] = stoich + [1.0]
                c['short'] = True
        elif short:
            if f == 'ext' and rng.random() < 0.5:
                c['a'] = a[:-1]
            else:
                c['z'] = z[:-1]
        return c

    def _gen_vec(self, rng):
        """vectorised molalities: one numpy array (m samples) per ion; list of rows, k x m array, Quantity array or dict of rows"""
        k, m = rng.randint(1, 5), rng.randint(1, 4)
        zs = [rng.choice([-4, -3, -2, -1, -1, 1, 1, 2, 3, 4]) for _ in range(k)]
        if k >= 2 and rng.random() < 0.6:       # one counter-ion of the opposite sign: every sample can be made neutral
            sgn = rng.choice([1, -1])
            zs = [sgn * abs(z) for z in zs[:-1]] + [-sgn * rng.choice([1, 2, 4])]
        if abs(zs[-1]) == 3:
            zs[-1] = 2 if zs[-1] > 0 else -2
        j = rng.randint(10, 30)
        cols, neutral = [], []
        for _ in range(m):
            bs = [Fraction(rng.randint(1, 10 ** rng.randint(1, 6)), 2 ** j) for _ in range(k)]
            want_neutral = rng.random() < 0.6 and k >= 2
            if want_neutral:
                net = sum(b * z for b, z in zip(bs[:-1], zs[:-1]))
                if net != 0 and (net > 0) != (zs[-1] > 0):
                    bs[-1] = -net / zs[-1]
                else:
                    want_neutral = False
            cols.append(bs)
            neutral.append(sum(b * z for b, z in zip(bs, zs)) == 0)
        rows = [[float(cols[jj][i]) for jj in range(m)] for i in range(k)]
        c = {'kind': 'vec', 'container': rng.choice(['rows', 'array2d', 'quantity2d', 'dict', 'qrows']), 'rows': rows, 'z': zs,
             'warn': rng.random() < 0.9, 'unit': rng.choice(sorted(MOLAL_UNITS)), 'mal': None}
        r = rng.random()
        if r < 0.06:
            c.update({'z': zs[:-1], 'mal': 'short-z', 'container': 'rows'})
        elif r < 0.10:
            c.update({'rows': [], 'z': [], 'mal': 'empty', 'container': 'rows'})
        if c['container'] == 'dict':
            keys = []
            for z in c['z']:
                pool = [f for f in BY_CHARGE[z] if f not in keys]
                if not pool:
                    c['container'] = 'rows'
                    break
                keys.append(rng.choice(pool))
            else:
                c['keys'] = keys
        return c

    def _gen_ac(self, rng):
        """direct calls of chempy.units.allclose on the argument shapes its branches distinguish"""
        lu = lambda lo, hi: float(self._dec(rng, lo, hi, 6))
        shape = rng.choice(['arr', 'scalar_arr', 'list', 'list', 'list_scalar', 'scalar', 'bc', 'bc', 'bc', 'bc'])
        rtol = rng.choice([1e-8, 1e-8, 1e-3, 0.0])
        n = rng.randint(1, 5)
        if shape == 'bc':
            return self._gen_ac_bc(rng, rtol, lu)

        def pairs(n, atols):
            a, b = [], []
            for i in range(n):
                x = lu(1e-6, 1e3) * rng.choice([1, -1])
                thr = abs(x) * rtol + atols[i]
                dev = thr * rng.choice([0.0, 0.3, 0.3, 3.0]) if rng.random() < 0.8 else abs(x) * rng.choice([0.5, 2.0])
                a.append(x)
                b.append(x + dev * rng.choice([1, -1]))
            return a, b
        if shape == 'arr':
            atol = [rng.choice([0.0, lu(1e-12, 1e-2)]) for _ in range(n)]
            a, b = pairs(n, atol)
        elif shape == 'scalar_arr':
            at = rng.choice([0.0, lu(1e-12, 1e-2)])
            a1, b = pairs(n, [at] * n)
            a = a1[0]
            thr = abs(a) * rtol + at
            b = [a + thr * rng.choice([0.0, 0.3, 0.3, 0.3, 3.0]) * rng.choice([1, -1]) for _ in range(n)]
            atol = at
        elif shape == 'list':
            atol = rng.choice([0.0, lu(1e-12, 1e-2)])
            a, b = pairs(n, [atol] * n)
            if rng.random() < 0.25:
                b = b + [b[-1]] if rng.random() < 0.5 else b[:-1]
        elif shape == 'list_scalar':
            atol = 0.0
            a, b = pairs(n, [0.0] * n)
            if rng.random() < 0.5:
                a, b = a, b[0]
            else:
                a, b = a[0], b
        else:
            atol = rng.choice([0.0, lu(1e-12, 1e-2)])
            a, b = pairs(1, [atol])
            a, b = a[0], b[0]
        return {'kind': 'ac', 'shape': shape, 'a': a, 'b': b, 'rtol': rtol, 'atol': atol}

    def _gen_ac_bc(self, rng, rtol, lu):
        """a, b, atol each a number, a one-element array or an array of the common length n (numpy broadcasting); 15 % with a shape
        that cannot be broadcast (b: compares unequal; atol: ValueError); optionally with units, any of the three an UncertainQuantity"""
        n = rng.randint(2, 5)
        kinds = {k: rng.choice(['scalar', 'one', 'full', 'full']) for k in ('a', 'b', 'atol')}
        if all(v == 'scalar' for v in kinds.values()) and rng.random() < 0.7:
            kinds[rng.choice(['a', 'b', 'atol'])] = 'full'
        bad = None
        r = rng.random()
        if r < 0.08:
            kinds['a'], kinds['b'], bad = 'full', 'longer', 'b'
        elif r < 0.15:
            kinds['a'], kinds['atol'], bad = 'full', 'longer', 'atol'
        ln = lambda k: {'scalar': None, 'one': 1, 'full': n, 'longer': n + 1}[kinds[k]]
        N = max([x for x in (ln('a'), ln('b'), ln('atol')) if x] or [1])
        xs = [lu(1e-6, 1e3) * rng.choice([1, -1]) for _ in range(N)]
        ats = [rng.choice([0.0, lu(1e-12, 1e-2)]) for _ in range(N)]
        take = lambda vals, k: vals[0] if ln(k) is None else vals[:ln(k)]
        a = take(xs, 'a')
        atol = take(ats, 'atol')
        bs = []
        for i in range(N):
            xa = xs[0] if ln('a') in (None, 1) else xs[min(i, len(xs) - 1)]
            at = ats[0] if ln('atol') in (None, 1) else ats[min(i, len(ats) - 1)]
            thr = abs(xa) * rtol + at
            dev = thr * rng.choice([0.0, 0.3, 0.3, 0.3, 3.0]) if rng.random() < 0.85 else abs(xa) * 0.5
            bs.append(xa + dev * rng.choice([1, -1]))
        b = take(bs, 'b')
        units = rng.random() < 0.4
        uq = [k for k in ('a', 'b', 'atol') if units and rng.random() < 0.35]
        return {'kind': 'ac', 'shape': 'bc', 'a': a, 'b': b, 'rtol': rtol, 'atol': atol, 'units': units, 'uq': uq, 'bad': bad}

    # ---- real calls of the new kinds
    def _build_vec(self, c):
        import numpy as np
        from chempy.units import default_units as u
        rows = [np.array(r, dtype=float) for r in c['rows']]
        ct = c['container']
        if ct == 'array2d' and rows:
            arg = np.array(rows)
        elif ct == 'quantity2d' and rows:
            arg = np.array(rows) * _unit(u, c['unit'])
        elif ct == 'qrows':
            arg = [r * _unit(u, c['unit']) for r in rows]
        elif ct == 'dict':
            arg = dict(zip(c['keys'], rows))
        else:
            arg = rows
        return arg, (None if ct == 'dict' else [int(z) for z in c['z']])

    def _call_vec(self, c, run=None):
        from chempy.electrolytes import ionic_strength
        arg, ch = self._build_vec(c)
        run = run or captured
        if ch is None:
            return run(ionic_strength, arg, warn=c['warn'])
        return run(ionic_strength, arg, ch, warn=c['warn'])

    def _vec_mags(self, c, r):
        import numpy as np
        if c['container'] in ('quantity2d', 'qrows'):
            from chempy.units import default_units as u
            q = (r / _unit(u, c['unit'])).simplified
            if q.dimensionality.string != 'dimensionless':
                raise TypeError('ionic strength has the wrong dimension: %s left' % q.dimensionality.string)
            r = q.magnitude
        return [float(x) for x in np.atleast_1d(np.asarray(r, dtype=float))]

    def _call_ac(self, c, inv=_plain):
        import numpy as np
        from chempy.units import allclose
        sh = c['shape']
        a, b, atol = c['a'], c['b'], c['atol']
        if sh == 'bc':
            import quantities as pq
            from chempy.units import default_units as u

            def wrap(k, v):
                v = np.array(v) if isinstance(v, list) else v
                if not c['units']:
                    return v
                if k in c['uq']:
                    return pq.UncertainQuantity(v, u.molal, abs(np.asarray(v, dtype=float)) * 0.01)
                return v * u.molal
            a, b, atol = wrap('a', a), wrap('b', b), wrap('atol', atol)
        elif sh == 'arr':
            a, b, atol = np.array(a), np.array(b), np.array(atol)
        elif sh == 'scalar_arr':
            b = np.array(b)
        return inv(allclose, a, b, c['rtol'], atol) if c['rtol'] != 1e-8 else inv(allclose, a, b, atol=atol)

    def _oracle_vec(self, c):
        rec = Recorder()
        r, w = self._call_vec(c, rec.cap)
        if rec.problem:
            return rec.problem
        if c['mal']:
            return None if isinstance(r, Exception) else 'ionic_strength accepted malformed vectorised input (%s)' % c['mal']
        if isinstance(r, Exception):
            return 'ionic_strength on vectorised molalities raised %s: %s' % (exc_name(r), str(r)[:80])
        try:
            got = self._vec_mags(c, r)
        except TypeError as e:
            return str(e)
        zs = c['z']
        m = len(c['rows'][0])
        if len(got) != m:
            return 'vectorised ionic strength has %d entries for %d samples' % (len(got), m)
        from chempy.electrolytes import ionic_strength
        any_warn, any_off, all_neutral = False, False, True
        for jj in range(m):
            bs = [Fraction(row[jj]) for row in c['rows']]
            want = sum(b * z * z for b, z in zip(bs, zs)) / 2
            if not close(got[jj], want, 1e-12, 0.0):
                return 'sample %d: ionic strength %r, 1/2 sum b z^2 = %r' % (jj, got[jj], float(want))
            net = sum(b * z for b, z in zip(bs, zs))
            all_neutral = all_neutral and net == 0
            any_off = any_off or abs(net) >= Fraction(1, 10 ** 12) * 2 * want and net != 0
            rj, wj = captured(ionic_strength, [float(b) for b in bs], [int(z) for z in zs], warn=c['warn'])
            if isinstance(rj, Exception) or not close(rj, got[jj], 1e-13, 0.0):
                return 'sample %d: the vectorised call gives %r, the call on that sample alone %r' % (jj, got[jj], rj)
            any_warn = any_warn or wj
        if w != any_warn:
            return 'vectorised call %s, but the samples one by one %s' % ('warned' if w else 'did not warn',
                                                                        'warn' if any_warn else 'do not warn')
        if c['warn']:
            if all_neutral and w:
                return 'every sample is exactly neutral, yet the warning was issued'
            if any_off and not w:
                return 'a sample is not neutral, yet no warning was issued'
        elif w:
            return 'warning issued although warn=False'
        return None

    @staticmethod
    def _oracle_ac_bc(c, r):
        """the definition over the full broadcast shape of (a, b, atol): one truth value"""
        if c.get('bad') == 'atol':
            return 'allclose accepted an atol that cannot be broadcast (returned %r)' % (r,)
        size = lambda v: len(v) if isinstance(v, list) else None
        sizes = [x for x in (size(c['a']), size(c['b']), size(c['atol'])) if x is not None]
        if c.get('bad') == 'b':
            return None if not bool(r) else 'arrays of lengths %r and %r compare equal' % (size(c['a']), size(c['b']))
        N = max(sizes) if sizes else 1
        if any(x not in (1, N) for x in sizes):
            return 'harness: shapes %r are not broadcastable' % (sizes,)
        el = lambda v, i: Fraction(v) if not isinstance(v, list) else Fraction(v[0] if len(v) == 1 else v[i])
        want = all(abs(el(c['a'], i) - el(c['b'], i)) <= abs(el(c['a'], i)) * Fraction(c['rtol']) + el(c['atol'], i) for i in range(N))
        if bool(r) != want:
            return ('allclose(%r, %r, rtol=%r, atol=%r)%s = %r; |a-b| <= rtol|a| + atol on every element of the broadcast shape (%d) gives %r'
                    % (c['a'], c['b'], c['rtol'], c['atol'], ' [molal, UncertainQuantity: %s]' % c['uq'] if c['units'] else '', bool(r), N, want))
        return None

    def _oracle_ac(self, c):
        rec = Recorder()
        try:
            r = self._call_ac(c, rec)
        except Exception as e:
            if c.get('bad') == 'atol' and isinstance(e, ValueError):
                return None              # an atol that cannot be broadcast against a is refused
            return 'allclose raised %s: %s' % (exc_name(e), str(e)[:80])
        if rec.problem:
            return rec.problem
        if not isinstance(r, bool) and getattr(r, 'shape', ()) != ():
            return 'allclose returned an array instead of one truth value: %r' % (r,)
        sh, rtol = c['shape'], c['rtol']
        if sh == 'bc':
            return self._oracle_ac_bc(c, r)
        ok = lambda x, y, t: abs(Fraction(x) - Fraction(y)) <= abs(Fraction(x)) * Fraction(rtol) + Fraction(t)
        a, b, atol = c['a'], c['b'], c['atol']
        if sh == 'scalar':
            want = ok(a, b, atol)
        elif sh == 'arr':
            want = all(ok(x, y, t) for x, y, t in zip(a, b, atol))
        elif sh == 'scalar_arr':
            want = all(ok(a, y, atol) for y in b)
        elif sh == 'list':
            want = len(a) == len(b) and all(ok(x, y, atol) for x, y in zip(a, b))
        else:
            want = False
        if bool(r) != want:
            return 'allclose(%r, %r, rtol=%r, atol=%r) = %r, definition |a-b| <= rtol|a| + atol (element-wise, equal lengths) gives %r' % (
                a, b, rtol, atol, bool(r), want)
        return None

    # ================================================================================================ model side
    def model_case(self, c):
        kd = c['kind']
        if kd == 'constants':
            return {'op': 'constants', 'kind': kd}
        if kd == 'is':
            enc = (lambda v: v) if c['num'] == 'rat' else f2b
            mc = {'op': 'is_dict' if 'dict' in c['form'] else 'is_list', 'num': c['num'], 'warn': c['warn'],
                  'b': [enc(v) for v in c['b']], 'case': c, 'kind': kd}
            if 'dict' in c['form']:
                mc['keys'] = c['keys']
                if c.get('subs'):
                    mc['subs'] = {k: v for k, v in c['subs'].items() if k != 'via'}
                if c.get('factory') is not None:
                    mc['factory'] = c['factory']
            else:
                mc['z'] = [int(z) if c['num'] == 'rat' else f2b(z) for z in c['z']]
            return mc
        if kd == 'ab':
            return self._model_ab(c)
        if kd == 'lg':
            f = c['f']
            if c['defaults']:
                if f == 'limiting':
                    name, args = 'limitingLogGammaD', [c['IS'], c['z'], c['A']]
                elif f == 'extended':
                    if c['C'] == 0.0:
                        name, args = 'extendedLogGammaD', [c['IS'], c['z'], c['a'], c['A'], c['B']]
                    else:
                        name, args = 'extendedLogGammaDC', [c['IS'], c['z'], c['a'], c['A'], c['B'], c['C']]
                else:
                    if c['C'] == -0.3:
                        name, args = 'daviesLogGammaD', [c['IS'], c['z'], c['A']]
                    else:
                        name, args = 'daviesLogGammaDC', [c['IS'], c['z'], c['A'], c['C']]
            else:
                if f == 'limiting':
                    name, args = 'limitingLogGamma', [c['IS'], c['z'], c['A'], c['I0']]
                elif f == 'extended':
                    name, args = 'extendedLogGamma', [c['IS'], c['z'], c['a'], c['A'], c['B'], c['C'], c['I0']]
                else:
                    name, args = 'daviesLogGamma', [c['IS'], c['z'], c['A'], c['C'], c['I0']]
            return {'op': 'fn', 'f': name, 'a': [f2b(x) for x in args], 'case': c, 'kind': kd}
        if kd == 'ap':
            mc = {'op': 'ap_' + c['f'] if not c['f'].startswith('cls') else c['f'], 'case': c, 'kind': kd,
                  'IS': f2b(c['IS']), 'stoich': [f2b(x) for x in c['stoich']], 'z': [f2b(x) for x in c['z']],
                  'a': [f2b(x) for x in c['a']], 'T': f2b(c['T']), 'eps': f2b(c['eps']), 'rho': f2b(c['rho']), 'C': f2b(c['C'])}
            if 'c' in c:
                mc['c'] = [f2b(x) for x in c['c']]
            if not c.get('C_given', True):
                del mc['C']
            return mc
        if kd == 'vec':
            return {'op': 'is_vec', 'kind': kd, 'case': c, 'rows': [[f2b(x) for x in r] for r in c['rows']],
                    'z': [f2b(z) for z in c['z']], 'warn': c['warn']}
        if kd == 'ac':
            mc = {'op': 'allclose', 'kind': kd, 'case': c, 'shape': c['shape'], 'rtol': f2b(c['rtol'])}
            enc = lambda v: [f2b(x) for x in v] if isinstance(v, list) else f2b(v)
            for k in ('a', 'b', 'atol'):
                if c['shape'] == 'list_scalar' and isinstance(c[k], list):
                    continue
                mc[k] = enc(c[k])
            return mc
        raise ValueError('unknown kind %r' % kd)

    CONST_DIMS = {  # exponents of (m, K, mol, kg, s, A)
        'Faraday_constant': (0, 0, -1, 0, 1, 1), 'Avogadro_constant': (0, 0, -1, 0, 0, 0),
        'vacuum_permittivity': (-3, 0, 0, -1, 4, 2), 'Boltzmann_constant': (2, -1, 0, 1, -2, 0),
        'pi': (0, 0, 0, 0, 0, 0), 'molar_gas_constant': (2, -1, -1, 1, -2, 0)}
    CONST_SI = {'Faraday_constant': 96485.3399, 'Avogadro_constant': 6.02214179e23, 'vacuum_permittivity': 8.854187817e-12,
                'Boltzmann_constant': 1.3806504e-23, 'pi': 3.141592653589793, 'molar_gas_constant': 8.314472}

    @staticmethod
    def _scale(base, dims):
        v = 1.0
        for k, e in zip(('m', 'K', 'mol', 'kg', 's', 'A'), dims):
            v *= base[k] ** e
        return v

    def _model_ab(self, c):
        base = c['base'] if c['path'] not in ('num', 'const_plain') else {k: 1.0 for k in ('m', 'K', 'mol', 'kg', 's', 'A')}
        sc = lambda dims: self._scale(base, dims)
        eps, T, rho, b0 = c['eps'], c['T'] * sc((0, 1, 0, 0, 0, 0)), c['rho'] * sc((-3, 0, 0, 1, 0, 0)), c['b0'] * sc((0, 0, 1, -1, 0, 0))
        molal = sc((0, 0, 1, -1, 0, 0))
        un = [base['m'], base['K'], base['mol']]
        lw = c['which'].lower()
        names = (['Faraday_constant', 'Avogadro_constant', 'vacuum_permittivity', 'Boltzmann_constant', 'pi'] if c['which'] == 'A'
                 else ['Faraday_constant', 'vacuum_permittivity', 'molar_gas_constant'])
        consts = [self.CONST_SI[k] * sc(self.CONST_DIMS[k]) for k in names]
        p = c['path']
        if p == 'num':
            f, args = lw + 'Num', [eps, T, rho, b0]
        elif p == 'num_units':
            f, args = lw + 'NumUnits', [eps, T, rho, b0] + un
        elif p == 'num_units_b0':
            f, args = lw + 'NumUnitsB0', [eps, T, rho, molal] + un
        elif p in ('const_plain', 'const_units'):
            f, args = lw + 'Const', [eps, T, rho, b0] + consts
        else:
            f, args = lw + 'ConstUnitsB0', [eps, T, rho, molal] + consts
        return {'op': 'fn', 'f': f, 'a': [f2b(x) for x in args], 'case': c, 'kind': 'ab',
                'post': base['m'] if c['which'] == 'B' else 1.0}

    # ================================================================================================ real code
    def _build_is(self, c, b=None, z=None, keys=None):
        """arguments of the real ionic_strength for the case (optionally with other entries): (molalities, charges | None)"""
        b = c['b'] if b is None else b
        z = c['z'] if z is None else z
        keys = c.get('keys') if keys is None else keys
        vals = [fr(v) for v in b] if c['num'] == 'rat' else [float(v) for v in b]
        if c['form'].startswith('units'):
            from chempy.units import default_units as u
            import numpy as np
            un = _unit(u, c['unit'])
            if 'dict' in c['form']:
                arg = dict((k, v * un) for k, v in zip(keys, vals))        # one scalar Quantity per key
            elif c['form'] == 'units-qlist':
                arg = [v * un for v in vals]                               # list of scalar Quantity objects
            elif c['form'] == 'units-uq':                                  # one UncertainQuantity array (allclose unwraps it)
                import quantities as pq
                arg = pq.UncertainQuantity(vals, un, [abs(v) * 0.01 for v in vals])
            elif c['form'] == 'units-uqlist':                              # list of scalar UncertainQuantity objects
                import quantities as pq
                arg = [pq.UncertainQuantity(v, un, abs(v) * 0.01) for v in vals]
            else:
                arg = np.array(vals) * un                                  # one Quantity array
        elif 'dict' in c['form']:
            arg = dict(zip(keys, vals))
        else:
            arg = vals
        return arg, (None if 'dict' in c['form'] else [int(x) for x in z])

    def _run_is(self, c, arg, charges, run=None):
        from chempy.electrolytes import ionic_strength
        run = run or (lambda f, *a, **k: captured(f, *a, **k) + (None,))
        if charges is None:
            return run(ionic_strength, arg, warn=c['warn'], **self._subs_kwargs(c))
        return run(ionic_strength, arg, charges, warn=c['warn'])

    @staticmethod
    def _subs_kwargs(c):
        """the `substances=` / `substance_factory=` keyword arguments of the case (fresh objects per call)"""
        from collections import OrderedDict
        from chempy import Substance
        kw = {}
        mk = lambda name, z: Substance(name, composition=({0: z} if z else {}))
        sub = c.get('subs')
        if sub:
            if sub['kind'] == 'names':
                kw['substances'] = sub['s']
            elif sub['kind'] == 'mapping':
                if sub.get('via') == 'formula':
                    kw['substances'] = OrderedDict((k, Substance.from_formula(k)) for k, _ in sub['t'])
                else:
                    kw['substances'] = OrderedDict((k, mk(k, z)) for k, z in sub['t'])
        if c.get('factory') is not None:
            table = dict((k, z) for k, z in c['factory'])
            kw['substance_factory'] = lambda name: mk(name, table[name])
        return kw

    def _call_is(self, c, b=None, z=None, keys=None):
        """real ionic_strength on the case (optionally with other entries) -> (value | exception, warned)"""
        arg, ch = self._build_is(c, b, z, keys)
        return self._run_is(c, arg, ch)[:2]

    def _mag(self, c, r):
        """magnitude of an ionic-strength result in the unit the molalities were given in"""
        if c['form'].startswith('units'):
            from chempy.units import default_units as u
            import quantities as pq
            return float((pq.Quantity(r) / _unit(u, c['unit'])).simplified.magnitude)
        return r

    def _real_ab(self, c, path=None, inv=_plain, backend=None):
        from chempy import electrolytes as E
        from chempy.units import default_units as u, default_constants as consts
        f = getattr(E, c['which'])
        p = path or c['path']
        eps, T, rho, b0 = c['eps'], c['T'], c['rho'], c['b0']
        kwb = {} if backend is None else {'backend': backend}
        if p == 'num':
            return float(inv(f, eps, T, rho, b0, **kwb))
        if p == 'const_plain':
            return float(inv(f, eps, T, rho, b0, constants=SimpleNamespace(**self.CONST_SI), **kwb))
        Tq = T * u.K
        rq = (rho / RHO_UNITS[c['rho_unit']]) * _unit(u, c['rho_unit'])
        bq = (b0 / MOLAL_UNITS[c['b0_unit']]) * _unit(u, c['b0_unit'])
        if p == 'num_units':
            r = inv(f, eps, Tq, rq, bq, units=u)
        elif p == 'num_units_b0':
            r = inv(f, eps, Tq, rq, units=u)
        elif p == 'const_units':
            r = inv(f, eps, Tq, rq, bq, constants=consts, units=u) if c['pass_units'] else inv(f, eps, Tq, rq, bq, constants=consts)
        else:
            r = inv(f, eps, Tq, rq, constants=consts, units=u)
        s = r.simplified
        want = 'dimensionless' if c['which'] == 'A' else '1/m'
        if s.dimensionality.string != want:
            raise TypeError('dimension of %s is %s, expected %s' % (c['which'], s.dimensionality.string, want))
        return float(s.magnitude)

    def _real_lg(self, c, inv=_plain, **over):
        from chempy import electrolytes as E
        d = dict(c)
        d.update(over)
        if d.get('backend') is not None:
            _inv, _be = inv, d['backend']
            inv = lambda f, *a, **k: _inv(f, *a, backend=_be, **k)
        IS, I0 = d['IS'], d['I0']
        if d['units']:
            from chempy.units import default_units as u
            IS, I0 = IS * u.molal, I0 * u.molal
        f = d['f']
        if d['defaults'] and not d['units']:
            if f == 'limiting':
                r = inv(E.limiting_log_gamma, IS, d['z'], d['A'])
            elif f == 'extended':
                r = (inv(E.extended_log_gamma, IS, d['z'], d['a'], d['A'], d['B']) if d['C'] == 0.0
                     else inv(E.extended_log_gamma, IS, d['z'], d['a'], d['A'], d['B'], d['C']))
            else:
                r = inv(E.davies_log_gamma, IS, d['z'], d['A']) if d['C'] == -0.3 else inv(E.davies_log_gamma, IS, d['z'], d['A'], d['C'])
        else:
            if f == 'limiting':
                r = inv(E.limiting_log_gamma, IS, d['z'], d['A'], I0=I0)
            elif f == 'extended':
                r = inv(E.extended_log_gamma, IS, d['z'], d['a'], d['A'], d['B'], C=d['C'], I0=I0)
            else:
                r = inv(E.davies_log_gamma, IS, d['z'], d['A'], C=d['C'], I0=I0)
        if d['units']:
            s = r.simplified
            if s.dimensionality.string != 'dimensionless':
                raise TypeError('log gamma has dimension %s' % s.dimensionality.string)
            return float(s.magnitude)
        return float(r)

    def _real_ap(self, c, cap=captured, backend=None):
        from chempy import electrolytes as E
        f = c['f']
        ints = lambda l: [int(x) for x in l]
        kw = {} if backend is None else {'backend': backend}
        if f == 'lim':
            return cap(E.limiting_activity_product, c['IS'], ints(c['stoich']), ints(c['z']), c['T'], c['eps'], c['rho'], **kw)
        if f == 'ext':
            return cap(E.extended_activity_product, c['IS'], ints(c['stoich']), ints(c['z']), c['a'], c['T'], c['eps'], c['rho'], c['C'], **kw)
        if f == 'dav':
            return cap(E.davies_activity_product, c['IS'], ints(c['stoich']), ints(c['z']), c['a'], c['T'], c['eps'], c['rho'], c['C'], **kw)
        if f == 'cls_base':
            obj = E._ActivityProductBase(ints(c['stoich']), ints(c['z']), c['T'], c['eps'], c['rho'])
            if obj.stoich != ints(c['stoich']) or obj.args != (ints(c['z']), c['T'], c['eps'], c['rho']):
                raise AssertionError('_ActivityProductBase does not store stoich / args')
        elif f == 'cls_lim':
            obj = E.LimitingDebyeHuckelActivityProduct(ints(c['stoich']), ints(c['z']), c['T'], c['eps'], c['rho'])
        else:
            extra = (c['C'],) if c.get('C_given', True) else ()
            obj = E.ExtendedDebyeHuckelActivityProduct(ints(c['stoich']), ints(c['z']), c['a'], c['T'], c['eps'], c['rho'], *extra)
        return cap(obj, c['c'])

    def impl(self, mc):
        kd = mc['kind']
        try:
            if kd == 'constants':
                from chempy.units import default_constants as consts
                from chempy.electrolytes import A, B
                vals = [Fraction(float(A(1, 1, 1, 1))), Fraction(float(B(1, 1, 1, 1)))]
                for k in ('Faraday_constant', 'Avogadro_constant', 'vacuum_permittivity', 'Boltzmann_constant', 'pi', 'molar_gas_constant'):
                    vals.append(Fraction(float(getattr(consts, k).simplified.magnitude)))
                return [show_rat(v) for v in vals]
            c = mc['case']
            if kd == 'is':
                r, w = self._call_is(c)
                if isinstance(r, Exception):
                    return exc_name(r)
                flag = 'W' if w else '-'
                if c['num'] == 'rat':
                    return '%s %s' % (show_rat(r), flag)
                return (float(self._mag(c, r)), flag)
            if kd == 'ab':
                return self._real_ab(c)
            if kd == 'lg':
                return self._real_lg(c)
            if kd == 'ap':
                r, w = self._real_ap(c)
                if isinstance(r, Exception):
                    return exc_name(r)
                if r is None:
                    return 'None'
                if isinstance(r, complex) or getattr(r, 'dtype', None) is not None and r.dtype.kind == 'c':
                    return 'raised:complex result'
                return (float(r), 'W' if w else '-')
            if kd == 'vec':
                r, w = self._call_vec(c)
                if isinstance(r, Exception):
                    return exc_name(r)
                return ([float(x) for x in self._vec_mags(c, r)], 'W' if w else '-')
            if kd == 'ac':
                try:
                    r = self._call_ac(c)
                except ValueError:
                    return 'ValueError'
                if not isinstance(r, (bool,)) and getattr(r, 'shape', ()) != ():
                    return 'raised:allclose returned an array %r' % (r,)
                return 'true' if bool(r) else 'false'
        except Exception as e:
            return 'raised:' + exc_name(e) + ':' + str(e)[:80]

    @staticmethod
    def _charge_of(c, key):
        """charge of the entry keyed `key`, from the hand-typed table (formulas) or from the labels of the case — by KEY"""
        return c['alias'][key] if 'alias' in c else ION_CHARGE[key]

    def _near_threshold(self, c):
        """exact case whose |net| is within 1e-6 relative of the coded threshold (float evaluation of the threshold in Python)"""
        try:
            if 'dict' in c['form']:
                zs = [self._charge_of(c, k) for k in c['keys']]
            else:
                zs = c['z']
            bs = [fr(v) for v in c['b']]
            net = abs(sum(b * z for b, z in zip(bs, zs)))
            tot = sum(b * z * z for b, z in zip(bs, zs))
            thr = net * Fraction(1, 10 ** 8) + tot * Fraction(1, 10 ** 14)
            return net != 0 and abs(net - thr) <= Fraction(1, 10 ** 6) * net
        except Exception:
            return False

    def same(self, mc, io, mo):
        kd = mc['kind']
        if kd == 'constants':
            toks = mo.split()
            # combinedA combinedB atol rtol F NA eps0 kB pi R
            return (isinstance(io, list) and len(toks) == 10 and float(Fraction(toks[0])) == float(Fraction(io[0]))
                    and float(Fraction(toks[1])) == float(Fraction(io[1])) and toks[4:] == io[2:]
                    and toks[2] == '1/100000000000000' and toks[3] == '1/100000000')
        c = mc['case']
        if isinstance(io, str) and io.startswith('raised:'):
            return False
        if kd == 'is':
            if isinstance(io, str):
                if c['num'] == 'rat' and ' ' in io and ' ' in mo and self._near_threshold(c):
                    return io.split()[0] == mo.split()[0]
                return io == mo
            parts = mo.split()
            if len(parts) != 2:
                return False
            return close(io[0], b2f(parts[0]), self.float_tol) and io[1] == parts[1]
        if kd in ('ab', 'lg'):
            try:
                m = b2f(mo) * mc.get('post', 1.0)
            except Exception:
                return False
            return close(io, m, self.float_tol, 1e-300)
        if kd == 'ap':
            if isinstance(io, str):
                return io == mo
            parts = mo.split()
            if c['f'].startswith('cls'):
                return len(parts) == 2 and close(io[0], b2f(parts[0]), self.float_tol) and io[1] == parts[1]
            if c['f'] == 'cls_base':
                return False
            return len(parts) == 1 and close(io[0], b2f(parts[0]), self.float_tol) and io[1] == '-'
        if kd == 'vec':
            if isinstance(io, str):
                return io == mo
            parts = mo.split()
            return (len(parts) == len(io[0]) + 1 and parts[-1] == io[1]
                    and all(close(x, b2f(y), self.float_tol) for x, y in zip(io[0], parts[:-1])))
        if kd == 'ac':
            return io == mo
        return False

    # ================================================================================================ oracle
    def oracle(self, c):
        kd = c['kind']
        if kd == 'constants':
            return None
        return getattr(self, '_oracle_' + kd)(c)

    def _oracle_is(self, c):
        arg, ch = self._build_is(c)
        r, w, prob = self._run_is(c, arg, ch, observed)
        if prob:
            return 'ionic_strength: ' + prob
        if c['target'] == 'malformed':
            if not isinstance(r, Exception):
                return 'ionic_strength accepted a malformed input (%s) and returned %r' % (c.get('mal'), r)
            return None
        if isinstance(r, Exception):
            return 'ionic_strength raised %s: %s' % (exc_name(r), str(r)[:80])
        zs = [self._charge_of(c, k) for k in c['keys']] if 'dict' in c['form'] else c['z']
        exact = c['num'] == 'rat'
        exactish = exact or bool(c.get('dyadic'))       # float evaluation of the sums is exact as well
        bs = [fr(v) if exact else Fraction(float(v)) for v in c['b']]
        want = sum(b * z * z for b, z in zip(bs, zs)) / 2
        got = self._mag(c, r)
        if c['form'].startswith('units'):
            from chempy.units import default_units as u
            import quantities as pq
            dim = (pq.Quantity(r) / _unit(u, c['unit'])).simplified.dimensionality.string
            if dim != 'dimensionless':
                return 'ionic strength of molalities in %s has the wrong dimension (%s left)' % (c['unit'], dim)
        if exact:
            if Fraction(got) != want:
                return 'ionic strength is %s, 1/2 sum b z^2 = %s' % (got, want)
        elif not close(got, want, 1e-12, 0.0):
            return 'ionic strength is %r, 1/2 sum b z^2 = %r' % (got, float(want))
        # warning iff not neutral (outside the tolerance band of the code: |net| in (0, 1.1e-14 tot) is the band)
        net = sum(b * z for b, z in zip(bs, zs))
        tot = 2 * want
        if c['warn']:
            # exact Fractions of the values actually passed.  Float evaluation moves the computed net charge by at most ~1e-15*tot
            # (<= 9 terms), so outside a narrow band around the documented threshold 1e-14*tot the outcome is determined:
            #   |net| >= 3e-14*tot (1.1e-14*tot when the evaluation is exact)  =>  warning;   net == 0 exactly  =>  no warning
            if (exactish or abs(net) > Fraction(1, 10 ** 12) * tot) and net == 0 and w:
                return 'neutral composition (net charge exactly 0) drew the warning'
            if c.get('paper_neutral') and w:
                return ('composition that is neutral in decimal arithmetic drew the warning: float net charge %.3g, total %.3g (the tolerance '
                        'tot*1e-14 must absorb the rounding of <= 8 products and sums)' % (float(net), float(tot)))
            must = Fraction(11, 10 ** 15) if exactish else Fraction(3, 10 ** 14)
            if net != 0 and abs(net) >= must * tot and not w and all(b >= 0 for b in bs):
                return ('composition with net charge %.6g = %.3g * sum(b z^2) (documented threshold 1e-14) drew no warning'
                        % (float(net), float(abs(net) / tot)))
            if exactish and net != 0 and abs(net) <= Fraction(9, 10 ** 15) * tot and w and all(b >= 0 for b in bs):
                return 'net charge %.3g * sum(b z^2), below the documented threshold 1e-14, drew the warning' % float(abs(net) / tot)
        elif w:
            return 'warning issued although warn=False'
        # invariances, on the real code
        k = len(zs)

        def cmp(name, r2, w2, factor=1):
            if isinstance(r2, Exception):
                return '%s: raised %s' % (name, exc_name(r2))
            g2 = self._mag(c, r2)
            if exact:
                if Fraction(g2) != want * factor:
                    return '%s: ionic strength %s instead of %s' % (name, g2, want * factor)
            elif not close(g2, want * factor, 1e-12, 0.0):
                return '%s: ionic strength %r instead of %r' % (name, g2, float(want * factor))
            if (exactish or abs(net) > Fraction(1, 10 ** 12) * tot) and w2 != w and not (exact and self._near_threshold(c)):
                return '%s: warning %s instead of %s' % (name, w2, w)
            return None

        perm = c['perm']
        if sorted(perm) == list(range(k)) and k > 1:
            # the permuted call is built from the SAME molality objects as the first call
            if ch is None:
                arg2, ch2 = dict((c['keys'][i], arg[c['keys'][i]]) for i in perm), None
            elif c['form'] in ('units-list', 'units-uq'):
                arg2, ch2 = arg[perm], [ch[i] for i in perm]
            else:
                arg2, ch2 = [arg[i] for i in perm], [ch[i] for i in perm]
            r2, w2, prob = self._run_is(c, arg2, ch2, observed)
            f = ('permuted entries: ' + prob) if prob else cmp('permuted entries (same molality objects)', r2, w2)
            if f:
                return f
            r3, w3 = self._run_is(c, arg, ch)[:2]       # and the original order once more, after all these calls
            f = cmp('repeated call after the permuted one', r3, w3)
            if f:
                return f
        sc = fr(c['scale'])
        b2 = [rat_json(fr(v) * sc) for v in c['b']] if exact else [float(v) * float(sc) for v in c['b']]
        r2, w2 = self._call_is(c, b=b2)
        if exact:
            f = cmp('molalities scaled by %s' % sc, r2, w2, sc)
        else:
            f = None if (not isinstance(r2, Exception) and close(self._mag(c, r2), float(want) * float(sc), 1e-10, 0.0)) else \
                'molalities scaled by %s: ionic strength %r, expected %r' % (sc, r2, float(want) * float(sc))
        if f:
            return f
        if 'dict' not in c['form'] and k >= 2 and zs[0] == zs[1]:
            bm = [rat_json(fr(c['b'][0]) + fr(c['b'][1]))] + list(c['b'][2:]) if exact else [c['b'][0] + c['b'][1]] + list(c['b'][2:])
            r2, w2 = self._call_is(c, b=bm, z=list(zs[1:]))
            if exact:
                f = cmp('two entries of charge %d merged' % zs[0], r2, w2)
            else:
                f = None if (not isinstance(r2, Exception) and close(self._mag(c, r2), float(want), 1e-10, 0.0)) else \
                    'merged entries: ionic strength %r, expected %r' % (r2, float(want))
            if f:
                return f
        return None

    def _oracle_ab(self, c):
        tb = (A_textbook if c['which'] == 'A' else B_textbook)(c['eps'], c['T'], c['rho'], c['b0'])
        vals = {}
        rec = Recorder()
        for p in ('num', 'const_plain', c['path']):
            try:
                vals[p] = self._real_ab(c, p, rec)
                if rec.problem:
                    return rec.problem
            except Exception as e:
                return '%s on path %s raised %s: %s' % (c['which'], p, exc_name(e), str(e)[:80])
            if not close(vals[p], tb, 1e-6, 0.0):
                return '%s(eps_r=%r, T=%r, rho=%r, b0=%r) on path %s is %r, the definition gives %r' % (
                    c['which'], c['eps'], c['T'], c['rho'], c['b0'], p, vals[p], tb)
        for p in vals:
            if not close(vals[p], vals['num'], 1e-9, 0.0):
                return '%s: path %s gives %r, built-in numeric path gives %r' % (c['which'], p, vals[p], vals['num'])
        import sympy
        for p in ('num', 'const_plain'):
            for be in ('math', sympy):
                try:
                    vb = self._real_ab(c, p, backend=be)
                except Exception as e:
                    return '%s on path %s with backend %s raised %s: %s' % (c['which'], p, getattr(be, '__name__', be), exc_name(e), str(e)[:60])
                if not close(vb, vals[p], 1e-12, 0.0):
                    return '%s on path %s: backend %s gives %r, default backend %r' % (c['which'], p, getattr(be, '__name__', be), vb, vals[p])
        return None

    def _oracle_lg(self, c):
        rec = Recorder()
        try:
            got = self._real_lg(c, rec)
            if rec.problem:
                return rec.problem
        except Exception as e:
            return '%s_log_gamma raised %s: %s' % (c['f'], exc_name(e), str(e)[:80])
        I = c['IS'] / c['I0']
        z, A = c['z'], c['A']
        want = {'limiting': lambda: lg_limiting(I, z, A), 'extended': lambda: lg_extended(I, z, c['a'], A, c['B'], c['C']),
                'davies': lambda: lg_davies(I, z, A, c['C'])}[c['f']]()
        if not close(got, want, 1e-9, 1e-300):
            return '%s_log_gamma(I/I0=%r, z=%r, ...) = %r, formula gives %r' % (c['f'], I, z, got, want)
        if not c['units']:
            import sympy
            for be in ('math', sympy):
                try:
                    gb = self._real_lg(c, backend=be)
                except Exception as e:
                    return '%s_log_gamma with backend %s raised %s: %s' % (c['f'], getattr(be, '__name__', be), exc_name(e), str(e)[:60])
                if not close(gb, got, 1e-12, 1e-300):
                    return '%s_log_gamma: backend %s gives %r, default backend %r' % (c['f'], getattr(be, '__name__', be), gb, got)
        try:
            zero = self._real_lg(c, IS=0.0)
            if zero != 0.0:
                return '%s_log_gamma at zero ionic strength is %r' % (c['f'], zero)
            if c['f'] == 'extended':
                lim = self._real_lg(c, a=0.0, C=0.0, defaults=False)
                if not close(lim, lg_limiting(I, z, A), 1e-9, 1e-300):
                    return 'extended_log_gamma with a = 0, C = 0 is %r, limiting law gives %r' % (lim, lg_limiting(I, z, A))
        except Exception as e:
            return '%s_log_gamma (limit cases) raised %s' % (c['f'], exc_name(e))
        return None

    def _oracle_ap(self, c):
        rec = Recorder()
        r, w = self._real_ap(c, rec.cap)
        if rec.problem:
            return rec.problem
        if c['f'] == 'cls_base':
            if isinstance(r, Exception):
                return '_ActivityProductBase call raised %s: %s' % (exc_name(r), str(r)[:80])
            return None if r is None and not w else '_ActivityProductBase(...)(c) returned %r (documented: does nothing)' % (r,)
        k = len(c['stoich'])
        enough = len(c['z']) >= k and (c['f'] not in ('ext', 'cls_ext') or len(c['a']) >= k)
        if not enough:
            if not isinstance(r, Exception):
                return 'activity product with a too short charge / size sequence returned %r' % (r,)
            return None
        if isinstance(r, Exception):
            return 'activity product raised %s: %s' % (exc_name(r), str(r)[:80])
        if isinstance(r, complex) or getattr(r, 'dtype', None) is not None and r.dtype.kind == 'c':
            return 'activity product is not a real number: %r' % (r,)
        A = A_textbook(c['eps'], c['T'], c['rho'])
        B = B_textbook(c['eps'], c['T'], c['rho'])
        IS = c['IS']
        if c['f'].startswith('cls'):
            IS = sum(b * z * z for b, z in zip(c['c'], c['z'])) / 2
            net = sum(b * z for b, z in zip(c['c'], c['z']))
            if net == 0 and w:
                return 'class call on a neutral composition drew the neutrality warning'
            if abs(net) > 1e-12 * 2 * IS and not w:
                return 'class call on a non-neutral composition (net %r) drew no warning' % net
        tot, mag = 0.0, 0.0
        for i in range(k):
            if c['f'] in ('lim', 'cls_lim'):
                t = c['stoich'][i] * lg_limiting(IS, c['z'][i], A)
            elif c['f'] in ('ext', 'cls_ext'):
                t = c['stoich'][i] * lg_extended(IS, c['z'][i], c['a'][i], A, B, c['C'])
            else:
                t = c['stoich'][i] * lg_davies(IS, c['z'][i], A, c['C'])
            tot += t
            mag += abs(t)          # the typed constants differ from the library's by up to 6e-8: error of the sum ~ 1e-7 * mag
        try:
            want = math.exp(tot)
        except OverflowError:
            want = float('inf')
        # the same sum with the library's own A and B (isolates the loop from the vintage of the constants): tight
        from chempy import electrolytes as E
        Al, Bl = float(E.A(c['eps'], c['T'], c['rho'])), float(E.B(c['eps'], c['T'], c['rho']))
        tl, ml = 0.0, 0.0
        for i in range(k):
            if c['f'] in ('lim', 'cls_lim'):
                t = c['stoich'][i] * lg_limiting(IS, c['z'][i], Al)
            elif c['f'] in ('ext', 'cls_ext'):
                t = c['stoich'][i] * lg_extended(IS, c['z'][i], c['a'][i], Al, Bl, c['C'])
            else:
                t = c['stoich'][i] * lg_davies(IS, c['z'][i], Al, c['C'])
            tl += t
            ml += abs(t)
        try:
            wl = math.exp(tl)
        except OverflowError:
            wl = float('inf')
        if not close(float(r), wl, 1e-11 * max(1.0, ml), 0.0):
            return '%s activity product is %r, exp(sum nu ln gamma) with the library\'s A, B = %r' % (c['f'], float(r), wl)
        if not c['f'].startswith('cls') and abs(tl) < 600:
            import sympy
            for be in ('math', sympy):
                rb, _ = self._real_ap(c, backend=be)
                if isinstance(rb, Exception) or not close(float(rb), float(r), 1e-12, 0.0):
                    return '%s activity product: backend %s gives %r, default backend %r' % (
                        c['f'], getattr(be, '__name__', be), rb, float(r))
        if not close(float(r), want, min(0.5, 1e-6 * max(1.0, mag)), 0.0):
            return '%s activity product is %r, exp(sum nu ln gamma) = %r' % (c['f'], float(r), want)
        return None

    # ================================================================================================ bookkeeping
    def classify(self, c):
        kd = c['kind']
        if kd == 'is':
            return 'is:%s:%s:%s%s%s%s' % (c['form'], c['num'], c['target'].split('*')[0], ':decimal' if c.get('paper_neutral') else '',
                                          '' if c['warn'] else ':nowarn',
                                        (':subs=' + c['smode']) if c.get('smode') else '')
        if kd == 'ab':
            return 'ab:%s:%s' % (c['which'], c['path'])
        if kd == 'lg':
            return 'lg:%s%s%s%s' % (c['f'], ':defaults' if c['defaults'] else '', ':units' if c['units'] else '', ':I=0' if c['IS'] == 0 else '')
        if kd == 'ap':
            k = min(len(c['stoich']), len(c['z']))
            neutral = any(c['z'][i] == 0 and c['stoich'][i] != 0 for i in range(k))
            spect = any(c['stoich'][i] == 0 for i in range(len(c['stoich'])))
            return 'ap:%s%s%s%s%s' % (c['f'], ':short' if c['short'] else '', ':neutral-species' if neutral else '',
                                      ':spectator' if spect else '', ':C=0' if c['C'] == 0 else '')
        if kd == 'vec':
            return 'vec:%s%s' % (c['container'], (':' + c['mal']) if c['mal'] else '')
        if kd == 'ac':
            return 'allclose:%s' % c['shape']
        return kd


PROPERTY = C18()
