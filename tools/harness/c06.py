"""C06 — integrated kinetics reproduce exact solutions and stay physically admissible   (PARTIAL by nature)

Correspondence (model `lean/ChemModel/Model/EulerStep.lean`, exact rationals vs the real code on dyadic floats):
  max_euler_step_cb   get_odesys(rsys)[1]['max_euler_step_cb'](0, y)  together with odesys.f_cb and rsys.upper_conc_bounds
  upper_conc_bounds   ReactionSystem.upper_conc_bounds with Fractions (dtype=object), exact
  first_order_matrix  the explicit matrix M of `first_order_is_linear` vs odesys.f_cb on the unit vectors, exact

Oracle = the property on the real code, independent of the Lean model:
  * Euler-step claim checked directly: 0 <= h <= 1, y + h f(y) inside [0, ub], h maximal (f, ub recomputed here from the case)
  * EXPLORATION (sampled runtime behaviour of pyodesys/scipy, not proof): text -> ReactionSystem.from_string -> get_odesys ->
    odesys.integrate compared with exp(M t) c0 (first-order networks), with closed forms (single bimolecular steps, own formula
    and chempy.kinetics.integrated), and along all trajectories: c >= -tol, c <= elemental bound (1 + tol), element totals kept.
"""
from collections import OrderedDict
from fractions import Fraction as F
from math import gcd
import json, math, os, random, warnings
from lib.framework import Property
from . import kinetics_gen as kg
from .util import *

ELEMENTS = [1, 6, 7, 8, 17]
LETTERS = 'ABCDEFGHJKLMNPQRSTUVWXYZ'
# Sampled accuracy of the delegated integrator, PER COMPONENT i and output time (measured distribution: notes/C06.md):
#     |c_i - ref_i| <= ACC_F * (atol + rtol*|ref_i|)  +  ACC_G * rtol * max_j |ref_j|
# the second term is the propagated global error of the dominant species into a minor one (LSODA controls the LOCAL error per
# component; the global error of a species fed by a much larger one scales with the larger one).
ACC_F = float(os.environ.get('C06_ACC_F', 10))
ACC_G = float(os.environ.get('C06_ACC_G', 20))
# accepted excursion below 0 / above the elemental bound ub_i:  BOUND_F * (atol + rtol*ub_i)   (true value 0 resp. <= ub_i)
BOUND_F = float(os.environ.get('C06_BOUND_F', 5))
# accepted drift of an element total T = sum_j a_j c_j:  DRIFT_F * sum_j |a_j| (atol + rtol*max_t|c_j|)
DRIFT_F = float(os.environ.get('C06_DRIFT_F', 5))
N_TOUT = 9


def _fr(v):
    return F(*v) if isinstance(v, list) else F(v)


def _dy(rng, lo, hi, den):
    return rat_json(F(rng.randint(lo, hi), den))


def _comp_sum(parts):
    tot = {}
    for comp, n in parts:
        for e, v in comp.items():
            tot[e] = tot.get(e, 0) + n * v
    return {e: v for e, v in tot.items() if v != 0}


def _merge(pairs):
    d = OrderedDict()
    for k, v in pairs:
        d[k] = d.get(k, 0) + v
    return [[k, v] for k, v in d.items()]


def log_times(rng, tmin, tmax, n=N_TOUT):
    """n output times, log-spaced from tmin to tmax (the slowest time scale) with jitter, strictly increasing"""
    lo, hi = math.log10(tmin), math.log10(tmax)
    ts = sorted({float('%.3g' % 10 ** (lo + (hi - lo) * (i + rng.uniform(-0.3, 0.3)) / (n - 1))) for i in range(n)})
    return [t for t in ts if t > 0]


class Net:
    """a growing balanced network: substances with compositions + reactions planted by regrouping atoms and charge"""

    def __init__(self, rng, charges=True):
        self.rng = rng
        self.elements = rng.sample(ELEMENTS, rng.randint(1, 3))
        self.subs = OrderedDict()
        self.rxns = []
        self.charges = charges

    def name_for(self, comp, fresh=False):
        if not fresh:
            for k, c in self.subs.items():
                if c == comp:
                    return k
        name = LETTERS[len(self.subs) % len(LETTERS)] + ('' if len(self.subs) < len(LETTERS) else str(len(self.subs)))
        self.subs[name] = dict(comp)
        return name

    def molecule(self):
        rng = self.rng
        comp = {}
        for e in rng.sample(self.elements, rng.randint(1, len(self.elements))):
            comp[e] = rng.randint(1, 3)
        if self.charges and rng.random() < 0.2:
            comp[0] = rng.choice([-2, -1, 1, 2])
        return self.name_for(comp, fresh=True)

    def products_of(self, total, split_p=0.5, iso_p=0.3):
        """names/coefficients of product species holding exactly `total`"""
        rng = self.rng
        parts = [total]
        if rng.random() < split_p:
            a = {}
            for e, v in total.items():
                x = rng.randint(min(0, v), max(0, v)) if e == 0 else rng.randint(0, v)
                if x:
                    a[e] = x
            b = {e: v - a.get(e, 0) for e, v in total.items() if v - a.get(e, 0) != 0}
            if any(e != 0 and v > 0 for e, v in a.items()) and any(e != 0 and v > 0 for e, v in b.items()):
                parts = [a, b]
        prod = []
        for p in parts:
            g = 0
            for v in p.values():
                g = gcd(g, abs(v))
            if g > 1 and rng.random() < 0.6:
                p = {e: v // g for e, v in p.items()}
            else:
                g = 1
            prod.append([self.name_for(p, fresh=rng.random() < iso_p), g])
        return _merge(prod)

    def add(self, reac, prod, k, ir=(), ip=()):
        spec = {'reac': reac, 'prod': prod, 'inact_reac': list(ir), 'inact_prod': list(ip)}
        if all(kg.net_of(spec, s) == 0 for s in kg.spec_keys(spec)):       # Reaction.check_any_effect would refuse it
            return False
        for r in self.rxns:
            if sorted(map(tuple, r['reac'])) == sorted(map(tuple, reac)) and sorted(map(tuple, r['prod'])) == sorted(map(tuple, prod)):
                return False
        self.rxns.append({'reac': reac, 'prod': prod, 'inact_reac': list(ir), 'inact_prod': list(ip), 'param': k, 'ordered': True})
        return True

    def subs_json(self):
        return [[k, [[int(e), int(v)] for e, v in c.items()]] for k, c in self.subs.items()]


def gen_network(rng, nr, first_order, kgen, max_order=3):
    """a balanced network with `nr` reactions (every substance takes part in some reaction)"""
    net = Net(rng, charges=not first_order or rng.random() < 0.3)
    net.molecule()
    tries = 0
    while len(net.rxns) < nr and tries < 40:
        tries += 1
        names = [k for k, c in net.subs.items() if any(e != 0 for e in c)]
        r = rng.random()
        if net.rxns and r < 0.25:                      # reverse of an existing step (first order: only if it has one product)
            old = rng.choice(net.rxns)
            if old['inact_reac'] or old['inact_prod']:
                continue
            if first_order and not (len(old['prod']) == 1 and old['prod'][0][1] == 1):
                continue
            net.add([list(p) for p in old['prod']], [list(p) for p in old['reac']], kgen())
            continue
        if r < 0.35 or len(names) == 0:
            net.molecule()
            continue
        if first_order:
            reac = [[rng.choice(names), 1]]
        else:
            ks = rng.sample(names, rng.randint(1, min(2, len(names))))
            reac = [[k, rng.randint(1, 2)] for k in ks]
            if sum(v for _, v in reac) > max_order:
                reac = [[k, 1] for k, _ in reac]
        total = _comp_sum([(net.subs[k], n) for k, n in reac])
        prod = net.products_of(total)
        ir, ip = [], []
        if not first_order and rng.random() < 0.15:    # catalyst on both sides
            c = rng.choice(list(net.subs))
            reac, prod = _merge(reac + [[c, 1]]), _merge(prod + [[c, 1]])
            if sum(v for _, v in reac) > max_order + 1:
                continue
        if rng.random() < 0.12:                        # part of a product coefficient is inactive (allowed by quasi_positive)
            j = rng.randrange(len(prod))
            if prod[j][1] > 1:
                prod[j][1] -= 1
                ip.append([prod[j][0], 1])
        net.add(reac, prod, kgen(), ir, ip)
    used = {k for r in net.rxns for part in ('reac', 'prod', 'inact_reac', 'inact_prod') for k, _ in r[part]}
    for k in list(net.subs):
        if k not in used:
            del net.subs[k]
    return net


def indep_rhs(subs, rxns, y, feed=None):
    """mass-action right-hand side computed here from the case (floats), and the sum of |terms| per substance;
    feed = (F, [c_feed per substance]) adds the stirred-tank term F*(c_feed - c)"""
    names = [k for k, _ in subs]
    idx = {k: i for i, k in enumerate(names)}
    f = [0.0] * len(names)
    mag = [0.0] * len(names)
    for r in rxns:
        rate = float(_fr(r['param']))
        for k, v in r['reac']:
            rate *= y[idx[k]] ** v
        for k in names:
            n = kg.net_of(r, k)
            if n:
                f[idx[k]] += n * rate
                mag[idx[k]] += abs(n * rate)
    if feed:
        for i in range(len(names)):
            f[i] += feed[0] * (feed[1][i] - y[i])
            mag[i] += abs(feed[0] * feed[1][i]) + abs(feed[0] * y[i])
    return f, mag


def indep_bounds(subs, y):
    """min over the elements of a substance of (element total) / (atoms per formula unit); charge ignored"""
    tot = {}
    for (k, comp), c in zip(subs, y):
        for e, v in comp:
            if e != 0:
                tot[e] = tot.get(e, 0.0) + v * c
    out = []
    for k, comp in subs:
        cand = [tot[e] / v for e, v in comp if e != 0]
        out.append(min(cand) if cand else math.inf)
    return out


def first_order_M(names, rxns):
    """matrix M (Fractions) with dc/dt = M c, built here from the case"""
    idx = {k: i for i, k in enumerate(names)}
    M = [[F(0)] * len(names) for _ in names]
    for r in rxns:
        (j, one), = r['reac']
        assert one == 1
        for s in names:
            M[idx[s]][idx[j]] += kg.net_of(r, s) * _fr(r['param'])
    return M


def fmt_k(x):
    return repr(float(x))


def _split_count(n, rng):
    """a coefficient as a list of positive summands (repeated terms on a side): 3 -> [3] | [1, 2] | [2, 1] | [1, 1, 1]"""
    if rng is None or n <= 1 or rng.random() < 0.45:
        return [n]
    parts, left = [], n
    while left > 0:
        p = rng.randint(1, left)
        parts.append(p)
        left -= p
    return parts if len(parts) > 1 else [1] * n


def rxn_text(r, rng=None):
    """the reaction as a line of text. With `rng` the MANY ways of writing the same reaction are sampled: a coefficient split into
    repeated terms of the same substance (`A + A`, `1 A + 1 A`, `A + 2 A`), an explicit coefficient 1 (`1 P`), bare and
    coefficient-carrying terms mixed and in any order; inactive parts in parentheses likewise."""
    def side(part, ipart):
        terms = []
        for k, n in r[part]:
            for q in _split_count(n, rng):
                terms.append('%s%s' % ('' if q == 1 and (rng is None or rng.random() < 0.6) else '%d ' % q, k))
        for k, n in r[ipart]:
            for q in _split_count(n, rng):
                terms.append('(%s%s)' % ('' if q == 1 and (rng is None or rng.random() < 0.6) else '%d ' % q, k))
        if rng is not None and rng.random() < 0.5:
            rng.shuffle(terms)
        return ' + '.join(terms)
    return '%s -> %s; %s' % (side('reac', 'inact_reac'), side('prod', 'inact_prod'), fmt_k(_fr(r['param'])))


CONC_UNITS = ['molar', 'millimolar', 'micromolar', 'mol/m3', 'mol/dm3', 'umol/cm3']
TIME_UNITS = ['second', 'minute', 'millisecond', 'hour']


def unit_of(name):
    from chempy.units import default_units as u
    return {'molar': u.molar, 'millimolar': u.millimolar, 'micromolar': u.micromolar, 'mol/m3': u.mol / u.metre ** 3,
            'mol/dm3': u.mol / u.decimetre ** 3, 'umol/cm3': u.micromole / u.centimetre ** 3,
            'second': u.second, 'minute': u.minute, 'millisecond': u.millisecond, 'hour': u.hour}[name]


def unit_factor(name):
    """size of the unit in molar resp. seconds (the harness computes in molar and seconds)"""
    return {'molar': 1.0, 'millimolar': 1e-3, 'micromolar': 1e-6, 'mol/m3': 1e-3, 'mol/dm3': 1.0, 'umol/cm3': 1e-3,
            'second': 1.0, 'minute': 60.0, 'millisecond': 1e-3, 'hour': 3600.0}[name]


def rxn_text_units(r, cu, tu, rng=None):
    """the reaction line with a unit-carrying rate constant: k in (cu)^(1-order)/(tu), same physical value"""
    order = sum(n for _, n in r['reac'])
    k = float(_fr(r['param'])) * unit_factor(tu) * unit_factor(cu) ** (order - 1)     # harness value is in molar, second
    cu_txt = {'molar': 'molar', 'millimolar': 'millimolar', 'mol/m3': '(mol/metre**3)'}[cu]
    txt = rxn_text(r, rng).rsplit(';', 1)[0] + '; %r' % k
    if order != 1:
        txt += '*%s**%d' % (cu_txt, 1 - order)
    return txt + '/' + tu


def rand_sysopt(rng, dyadic=False):
    """the system class / options the builder accepts besides the default SymbolicSys: pyodesys ScaledSys with dep_scaling and
    indep_scaling (None = default class)"""
    if rng.random() < 0.65:
        return None
    if dyadic:
        sc = lambda: rat_json(F(2) ** rng.choice([-10, -6, -3, -1, 0, 1, 4, 10]))
    else:
        sc = lambda: (float(10 ** rng.randint(-4, 6)) if rng.random() < 0.6 else float(2.0 ** rng.randint(-12, 20))) if rng.random() < 0.85 else 1.0
    # pyodesys checks fw(bw(x)) == x in float arithmetic and refuses (ValueError "did you set real=True?") a dep_/indep_scaling whose
    # reciprocal does not round-trip, e.g. 0.00097, 53.7, 2630.0 — a limitation of the delegated library; only round-tripping values are drawn
    tau = 1
    if rng.random() < 0.6:
        tau = rat_json(F(2) ** rng.randint(-10, 10)) if dyadic or rng.random() < 0.4 else float(10 ** rng.randint(-4, 4))
    return {'dep': sc(), 'indep': tau}


def sys_kwargs(sysopt):
    if not sysopt:
        return {}
    from pyodesys.symbolic import ScaledSys
    return {'SymbolicSys': ScaledSys, 'dep_scaling': float(_fr(sysopt['dep'])), 'indep_scaling': float(_fr(sysopt['indep']))}


def rand_units(rng, ns):
    """how the unit-aware pipeline is driven: a unit per initial concentration, a time unit, the container of c0, output units"""
    form = rng.choice(['dict', 'dict', 'dict', 'list', 'array'])
    mixed = rng.random() < 0.8
    base = rng.choice(CONC_UNITS)
    return {'conc': [rng.choice(CONC_UNITS) if mixed else base for _ in range(ns)], 'time': rng.choice(TIME_UNITS), 'form': form,
            'k_conc': rng.choice(['molar', 'millimolar', 'mol/m3']), 'k_time': rng.choice(['second', 'second', 'minute']),
            'out_conc': rng.choice([None, None, 'millimolar', 'mol/m3']), 'out_time': rng.choice([None, None, 'minute'])}


class C06(Property):
    pid = 'C06'
    title = ('integrating the generated ODE system reproduces exact solutions (exp(M t) c0 for first-order networks, closed forms for '
             'single bimolecular steps) to the requested tolerance; concentrations stay within [0, elemental upper bound] up to '
             'tolerance; the advertised explicit-Euler step keeps every concentration inside [0, elemental upper bound]')
    props_module = 'ChemModel.Props.C06'
    build_modules = ('ChemModel.Model.EulerStep', 'ChemModel.Model.Kinetics', 'ChemModel.Model.EqSolve',
                     'ChemModel.Driver.KineticsIO', 'ChemModel.Basic.Proto')
    driver = 'ChemModel/Driver/C06.lean'
    n_quick, n_thorough = 300, 3000
    float_tol = 1e-11
    case_timeout = 120
    rule = ('balanced networks planted by regrouping atoms/charge of random molecules over 1-3 elements (1-7 reactions of order <= 3, '
            'reversed steps, catalysts, inactive product parts, isomers); correspondence on dyadic rate constants m*2^e and states k/16 '
            '(zeros, single-species states = on a bound, wrong length), unbalanced systems (no callback), non-participating substances; '
            'states with a negative entry (model = code also outside the box; the only states on which the upper-bound branch decides); '
            'oracle on the same systems with random float states and rate constants over 8 decades. '
            'EXPLORATION (sampled, not proof): first-order networks (branches, cycles, A -> 2 B, A -> B + C; k over 2-8 decades; 9 output '
            'times log-spaced from 0.01/k_max to the slowest time scale (1..5)/k_min; atol/rtol 1e-6..1e-10; default integrator and integrator="scipy") from text through from_string/'
            'get_odesys/integrate vs exp(M t) c0 (scipy expm, mpmath 40 digits when |M| t > 100); A + B -> P, A + B <-> P (also [A]0 = [B]0 exactly and [B]0/[A]0 -> 1; 40% of the runs far past completion, kf*(major-minor)*t up to 1e4), 2 A -> P vs '
            'closed forms (own formula at 40 digits and chempy.kinetics.integrated; the library forms are additionally swept against the 40-digit reference over kf*(major-minor)*t = 1e-3..1e4 with the numpy and math back-ends, non-finite values and exceptions flagged); nonlinear networks: bounds and invariants only; '
            'about 40% of the integrations go through the UNIT-AWARE pipeline (get_odesys(unit_registry=SI_base_registry), rate constants in '
            'molar/millimolar/mol m-3 per second/minute, one of 6 concentration units PER initial concentration, c0 as dict / list / quantity '
            'array, output times in s/min/ms/h, optional output units) and are converted back before the same comparisons; the Euler-step '
            'claim is re-checked at every output row through the same (unit-carrying) entry point. '
            'SYSTEM CLASSES / OPTIONS: 35% of the callback correspondence cases and of the integrations are built with '
            'get_odesys(SymbolicSys=ScaledSys, dep_scaling=s, indep_scaling=tau) (s, tau powers of two / ten incl. != 1, with and without '
            'unit_registry); correspondence through the exactly rescaled plain system (k_int = k s^(1-n)/tau at state s*y), oracle in the '
            "USER's scale (step = returned/tau, cap 1/tau): safe AND maximal, also at every output row of the trajectories. "
            'TEXT: 70% of the integrations are written in sampled spellings (a coefficient split into repeated terms `A + A`, `1 A + 1 A`, '
            '`A + 2 A`, explicit coefficient 1, bare/coefficient mixes, shuffled order, inactive parts likewise) and read through '
            'ReactionSystem.from_string or Reaction.from_string + constructor, 30% of them with generic substances without composition '
            '(no balance check to catch a mis-read; accuracy vs expm / closed forms only). '
            'BUILDER OPTIONS (coverage round): half of the integrations and 30% of the callback correspondence cases ask get_odesys in one of its '
            'other ways: rate constants as free parameters (include_params=False) named in the text ("; \'k0\'"), as MassAction([k], '
            'unique_keys) or MassAction(None, [name]) through the constructor, bound through substitutions= (numbers, quantities, or an '
            'Arrhenius-type Expr of a temperature parameter), parameter SCANS through the parameters of one odesys; cstr=True (feed ratio and '
            'feed concentrations as parameters; reference: exponential of the augmented matrix; model op max_euler_step_cb_cstr); '
            'PartiallySolvedSystem over extra["linear_dependencies"](preferred); real species through the default formula factory; and the '
            'eight REFUSALS (unbalanced text, strict check without composition, unknown substitution, reserved key time, four of '
            'linear_dependencies) which must raise ValueError. '
            'HISTORIES (explore:history, euler:*:after-history): parameter scans / refits on the SAME ReactionSystem / Reaction objects '
            '(from_string or constructor): 2-4 steps, each re-assigns rxn.param over +-2 decades (total spread of the constants <= 8 decades, the calibrated regime), optionally touches rate_expr / rates / '
            'string / get_odesys, rebuilds with get_odesys and integrates; every integration is compared with the exact solution for the '
            'CURRENT constants (expm / Riccati), bounds, totals and the Euler-step claim included; 25% of the callback correspondence cases '
            'are built on objects that carried other constants before. Buckets "explore:*" count the integrations. A case is non-trivial when it is a distinct JSON value with >= 1 reaction.')
    assumptions = (
        'PARTIAL: accuracy and step control of the delegated integrator (pyodesys -> scipy LSODA) are runtime behaviour; sampled, not proved. '
        'Accepted per component: |c_i - ref_i| <= %g*(atol + rtol*|ref_i|) + %g*rtol*max_j|ref_j|; excursion outside [0, ub_i] <= %g*(atol + rtol*ub_i); '
        'drift of an element total <= %g*sum_j|a_j|(atol + rtol*max_t|c_j|) (factors from the measured distributions in notes/C06.md)' % (ACC_F, ACC_G, BOUND_F, DRIFT_F),
        'residual blind spot of the sampled accuracy: a species below 2*ACC_G*rtol of the dominant one (2e-5*max for rtol 1e-6, 4e-9*max for '
        'rtol 1e-10) could be entirely wrong and pass; a quarter of the runs use each of rtol 1e-6/1e-8/1e-9/1e-10',
        'exact model vs Python floats on dyadic inputs: f and the bounds are exact, h is compared with relative tolerance 1e-11 '
        '(two roundings in (ub - y)/f amplified by ub/(ub - y) <= 5e3)',
        'numpy float division by a zero composition coefficient (inf/nan + RuntimeWarning) is outside the model (the model says ZeroDivisionError)',
        'quasi-positivity implies non-negativity of exact solutions by the classical invariance theorem for ODEs (Nagumo), not formalised here',
        'rate parameters are plain numbers (MassAction) in the Lean model; the unit-aware entry points are covered by the oracle only '
        '(SI_base_registry; the returned Euler step is then in seconds); include_params=False and user substitutions are C04/C10 subjects',
    )
    clauses_without_theorem = (
        '"returns concentrations that agree, to the requested tolerance, with the exact solution" (matrix exponential / closed forms): '
        'accuracy of the delegated adaptive integrator (pyodesys -> scipy LSODA; integrator=None and "scipy" are the same solver here, no '
        'other back-end is installed) is SAMPLED only, per component with the measured factors; theorems cover only that exp(Mt)c0 / the '
        'closed forms are the right references (first_order_is_linear, *_solves_system) — without a uniqueness theorem and, for first-order '
        'networks, without a formal proof that t -> exp(Mt)c0 solves c\' = Mc',
        '"concentrations never become negative beyond tolerance or exceed the supply of their constituent elements" ALONG computed '
        'trajectories: sampled only. Proved is the DISCRETE analogue (euler_iterates_admissible: iterated advertised Euler steps stay '
        'non-negative, below upper_conc_bounds(c0), totals exact), the tangent condition (quasi_positive), the Metzler structure, B.M = 0 and that any '
        'non-negative state with the same totals is below the bound (upper_bound_valid); forward invariance of the orthant for exact '
        'solutions (Nagumo / exp of a Metzler matrix is non-negative) is the classical theorem, NOT formalised, and says nothing about '
        'the numerical trajectory',
        '"from text input through to the result arrays": ReactionSystem.from_string -> get_odesys -> pyodesys plumbing (names order, unit '
        'conversion callbacks, output arrays) is exercised by the exploration only; no theorem composes C12\'s parser model with sysRates',
        'the quantifier over PROGRAMS (integrators) is a singleton here: only scipy/LSODA is installed, integrator=None and "scipy" are the '
        'same solver; cvode/odeint/gsl back-ends of pyodesys are never exercised',
        'unit-aware entry points (get_odesys(unit_registry=...), quantities in and out) of integrate and max_euler_step_cb: oracle only',
        'pyodesys ScaledSys (dep_scaling / indep_scaling): PROVED are the algebraic facts the correspondence and the oracle rely on '
        '(scaled_rates, scaled_fvec, scaled_step, scaled_step_user_scale: rescaled system = s/tau times the plain one, step limits tau times, '
        'returned/tau = min(min_h, 1/tau)); NOT proved: the same homogeneity for upper_conc_bounds (bounds of s*y = s*bounds of y, '
        'C08-owned boundOf/listMin) and hence the composed statement about maxEulerStepCb; that pyodesys ScaledSys implements exactly '
        'this change of variables is third-party behaviour tied by the correspondence only',
        'the many spellings of a reaction in text (repeated terms, explicit 1, mixes) reach the integrator unchanged: sampled only (C12 proves '
        'the parser model, nothing composes it with the kinetics here)',
        'zero composition coefficients: the exact model refuses (ZeroDivisionError), numpy gives inf/nan bounds and an order-dependent min; Python\'s '
        'min() ignores a nan unless it comes first, so the real bound is finite or nan depending on the dict order. Generated in the bucket '
        'euler:zero-coefficient as a documented model/code divergence (the model refuses where the code answers); no claim there',
        'the other ways of building the system (include_params=False with named / unique-key constants, substitutions incl. Expr-valued, '
        'PartiallySolvedSystem, default formula factory): the model is the plain system with the constants bound (C04 binding_invariance); '
        'that these builds integrate to the same exact solutions is sampled only',
        'stirred tank (cstr=True): proved are quasi_positive_cstr and euler_step_cb_cstr_safe; accuracy vs the augmented matrix exponential is '
        'sampled; the elemental bounds are no physical limit of an open system (the callback returns 0 / -1e-18 when a feed raises a species '
        'that holds all of an element — reported)',
    )
    anchors = (('chempy/kinetics/ode.py', 'get_odesys'), ('chempy/reactionsystem.py', 'ReactionSystem.upper_conc_bounds'),
               ('chempy/reactionsystem.py', 'ReactionSystem.rates'), ('chempy/reactionsystem.py', 'ReactionSystem.check_balance'),
               ('chempy/reactionsystem.py', 'ReactionSystem.from_string'), ('chempy/kinetics/rates.py', 'MassAction.active_conc_prod'),
               ('chempy/kinetics/rates.py', 'MassAction.rate_coeff'), ('chempy/kinetics/rates.py', 'MassAction.__call__'),
               ('chempy/chemistry.py', 'Reaction.rate'), ('chempy/chemistry.py', 'Reaction.net_stoich'))

    def __init__(self):
        self._cache = {}
        self._last = None
        self.meas = {'acc': [], 'acc_rest': [], 'neg': [], 'over': [], 'drift': []}     # measured ratios (calibration, see notes/C06.md)

    # ---- generation -------------------------------------------------------------------------
    def _kdy(self, rng, wide=False):
        e = rng.randint(-8, 8) if wide else rng.randint(-5, 5)
        return rat_json(F(rng.randint(1, 15)) * F(2) ** e)

    def _states(self, rng, subs, n):
        ns = len(subs)
        out = []
        for _ in range(n):
            r = rng.random()
            if r < 0.2:                                       # everything in one species: the others sit on 0, it sits on its bound
                y = [0] * ns
                y[rng.randrange(ns)] = _dy(rng, 1, 64, 16)
            elif r < 0.5:
                y = [0 if rng.random() < 0.4 else _dy(rng, 1, 64, 16) for _ in range(ns)]
            elif r < 0.55:
                y = [0] * ns
            elif r < 0.65:                                    # outside the box (a negative entry): no claim of the property, but the
                y = [_dy(rng, 0, 64, 16) for _ in range(ns)]   # model must still equal the code — the only states on which the
                j = rng.randrange(ns)                          # upper-bound side of the loop can be the binding one
                y[j] = _dy(rng, -64, -1, 16)
            else:
                y = [_dy(rng, 1, 64, 16) for _ in range(ns)]
            out.append(y)
        return out

    def _euler_case(self, rng, tier):
        nr = rng.choice([1, 1, 2, 2, 3, 3, 4, rng.randint(1, 5 if tier == 'quick' else 7)])
        net = gen_network(rng, nr, first_order=rng.random() < 0.25, kgen=lambda: self._kdy(rng))
        if not net.rxns:
            return None
        subs, rxns = net.subs_json(), net.rxns
        planted = 'balanced'
        r = rng.random()
        if r < 0.08:                                          # unbalanced: the callback is None
            j = rng.randrange(len(rxns))
            side = rng.choice(['reac', 'prod'])
            k = rng.choice([s[0] for s in subs])
            rxns[j][side] = _merge(rxns[j][side] + [[k, 1]])
            planted = 'unbalanced'
        elif r < 0.12:                                        # a substance that takes part in no reaction: get_odesys refuses
            subs.append(['Zz', [[1, 1]]])
            planted = 'nonparticipating'
        elif r < 0.15:                                        # QUIRK: an explicit zero composition coefficient ({6: 0}): exact numbers
            j = rng.randrange(len(subs))                     # raise ZeroDivisionError (the model), numpy floats give inf / nan bounds
            free = [e for e in ELEMENTS if e not in [k for k, _ in subs[j][1]]]
            if free:
                subs[j] = [subs[j][0], subs[j][1] + [[rng.choice(free), 0]]]
                planted = 'zero-coefficient'
        elif r < 0.18:                                        # consumption through an inactive reactant (outside quasi_positive)
            j = rng.randrange(len(rxns))
            if rxns[j]['reac'][0][1] > 1:
                rxns[j]['reac'][0][1] -= 1
                rxns[j]['inact_reac'] = [[rxns[j]['reac'][0][0], 1]]
                planted = 'inactive-reactant'
        if rng.random() < 0.3:
            rng.shuffle(subs)
        states = self._states(rng, subs, 4)
        if rng.random() < 0.05:
            states.append(states[0][:-1] if rng.random() < 0.5 else states[0] + [1])      # wrong length
        pre = None
        if rng.random() < 0.25:             # history: the same objects carried other constants before (scan / refit), powers of two
            pre = [[rat_json(F(2) ** rng.randint(-6, 6)) for _ in rxns] for _ in range(rng.randint(1, 2))]
        sysopt = rand_sysopt(rng, dyadic=True) if planted in ('balanced', 'inactive-reactant') else None
        bopt = None
        if planted in ('balanced', 'inactive-reactant') and rng.random() < 0.3:
            # other ways of asking the builder: constants as free parameters (named in the text / unique keys), stirred tank
            sysopt = None
            if rng.random() < 0.5:
                bopt = {'pmode': rng.choice(['named', 'unique', 'keyonly', 'subst'])}
            else:
                bopt = {'cstr': {'fr': _dy(rng, 0, 64, 16), 'fc': [0 if rng.random() < 0.4 else _dy(rng, 1, 64, 16) for _ in subs]}}
        if sysopt:      # a state of the wrong length is a TypeError inside pyodesys' scaling pre-processor (ValueError otherwise): not modelled
            states = [st for st in states if len(st) == len(subs)]
        return {'op': 'max_euler_step_cb', 'subs': subs, 'rxns': rxns, 'states': states, 'planted': planted,
                'fseed': rng.randrange(10 ** 9), 'pre': pre if not bopt else None, 'sysopt': sysopt, 'bopt': bopt}

    def _linear_case(self, rng, tier, max_decades=8):
        decades = rng.choice([d for d in (2, 4, 6, 8) if d <= max_decades])
        mid = rng.uniform(-2, 2)
        kgen = lambda: rat_json(F(float('%.3g' % (10 ** rng.uniform(mid - decades / 2, mid + decades / 2)))))
        nr = rng.randint(1, 6 if tier == 'quick' else 9)
        net = gen_network(rng, nr, first_order=True, kgen=kgen)
        if not net.rxns:
            return None
        subs = net.subs_json()
        ks = [float(_fr(r['param'])) for r in net.rxns]
        c0 = [0.0 if rng.random() < 0.35 else float('%.4g' % (10 ** rng.uniform(-3, 1))) for _ in subs]
        if not any(c0):
            c0[0] = 1.0
        tout = log_times(rng, 0.01 / max(ks), rng.uniform(1, 5) / min(ks))        # up to the slowest time scale
        tol = rng.choice([1e-6, 1e-8, 1e-9, 1e-10])
        return self._rand_opts(rng, {'kind': 'linear', 'subs': subs, 'rxns': net.rxns, 'c0': c0, 'tout': tout, 'atol': tol * rng.choice([1, 1e-2]),
                'rtol': tol, 'integrator': rng.choice([None, 'scipy']), 'units': rand_units(rng, len(subs)) if rng.random() < 0.4 else None,
                'text': self._rand_text(rng), 'sysopt': rand_sysopt(rng)}, [k for k, _ in subs])

    def _bimol_case(self, rng, tier):
        which = rng.choice(['irrev', 'irrev', 'rev', 'rev', 'dimer', 'dimer', 'equal', 'equal', 'equal_rev'])
        kf = float('%.4g' % (10 ** rng.uniform(-3, 4)))
        kb = float('%.4g' % (10 ** rng.uniform(-3, 3)))
        major = float('%.4g' % (10 ** rng.uniform(-2, 1)))
        r = rng.random()
        if r < 0.65:
            minor = float('%.4g' % (major * rng.uniform(0.05, 0.9)))
        elif r < 0.8:
            minor = float('%.4g' % (major * (1 - 10 ** rng.uniform(-4, -1.3))))
        else:                                                   # NEARLY equimolar: relative difference 1e-12 ... 1e-3 (full precision)
            minor = major * (1 - 10 ** rng.uniform(-12, -3))
        if which in ('equal', 'equal_rev'):                     # [A]0 = [B]0: binary_irrev is 0/0 there, the solution is 1/(1/c0 + k t)
            minor = major
        prod = rng.choice([0.0, 0.0, float('%.3g' % (10 ** rng.uniform(-3, 0)))])
        swap = rng.random() < 0.5                               # which of A, B is the abundant one
        rate = kf * major + (kb if which in ('rev', 'equal_rev') else 0)
        tout = log_times(rng, 0.003 / rate, 30 / rate)
        if rng.random() < 0.4:                                   # FAST / LATE regime: far past completion, kf*(major-minor)*t up to 1e4
            slow = kf * (major - minor) if minor < major else rate
            tout = log_times(rng, 0.003 / rate, 10 ** rng.uniform(1.5, 4) / slow)
        tol = rng.choice([1e-6, 1e-8, 1e-9, 1e-10])
        c = {'kind': 'bimol', 'which': which, 'kf': kf, 'kb': kb, 'major': major, 'minor': minor, 'prod': prod, 'swap': swap,
             'tout': tout, 'atol': tol * rng.choice([1, 1e-2]), 'rtol': tol, 'integrator': rng.choice([None, 'scipy']),
             'units': rand_units(rng, 3) if rng.random() < 0.4 else None, 'text': self._rand_text(rng), 'sysopt': rand_sysopt(rng)}
        c = self._rand_opts(rng, c, ['A', 'P'] if which == 'dimer' else ['A', 'B', 'P'], allow_cstr=False)
        if rng.random() < 0.25 and (c['opts'] or {}).get('params') not in ('unique', 'keyonly'):
            # real species (Fe+3 + SCN- <-> FeSCN+2, 2 NO2 -> N2O4) read by the DEFAULT substance factory = the formula parser
            c['text'] = {'seed': rng.randrange(10 ** 9), 'via': 'system', 'nocomp': False, 'formulas': True}
        return c

    def _rand_opts(self, rng, case, names, allow_cstr=True):
        """adds case['opts'] (and switches off what it does not combine with): the other ways get_odesys is asked to build the system"""
        r = rng.random()
        case['opts'] = None
        if r < 0.5:
            return case
        kind = rng.choice(['named', 'unique', 'keyonly', 'subst', 'active', 'cstr', 'cstr', 'partial', 'partial'] if allow_cstr
                          else ['named', 'unique', 'keyonly', 'subst', 'active', 'partial'])
        case['sysopt'] = None
        if kind == 'active':
            case['units'] = None
            case['opts'] = {'params': 'active', 'scan': [], 'T': float('%.4g' % rng.uniform(250, 400)), 'free': rng.random() < 0.5,
                            'E': [float('%.4g' % rng.uniform(0, 5000)) for _ in range(4)]}
        elif kind in ('named', 'unique', 'keyonly', 'subst'):
            case['opts'] = {'params': kind, 'scan': [] if kind == 'subst' else
                            [[1.0 if rng.random() < 0.3 else float('%.3g' % 10 ** rng.uniform(-1.5, 1.5)) for _ in range(12)]
                             for _ in range(rng.randint(0, 2))]}
            if kind in ('unique', 'keyonly'):
                case['units'] = None
                case['text'] = {'seed': None, 'via': 'system', 'nocomp': False}
        elif kind == 'cstr':
            case['units'] = None
            case['opts'] = {'cstr': {'fr': float('%.3g' % 10 ** rng.uniform(-2, 1)),
                                     'fc': [0.0 if rng.random() < 0.4 else float('%.3g' % 10 ** rng.uniform(-2, 0.5)) for _ in names]}}
        else:
            case['units'] = None
            pref = None if rng.random() < 0.5 or len(names) < 2 else rng.sample(names, rng.randint(1, min(2, len(names) - 1)))
            case['opts'] = {'partial': {'preferred': pref}}
        if case.get('text') and case['text'].get('nocomp') and kind in ('cstr', 'partial'):
            case['text']['nocomp'] = False
        return case

    def _rand_text(self, rng):
        """how the system is written and read: plain lines (None) or sampled spellings (repeated terms, explicit 1, mixed order) through
        ReactionSystem.from_string or Reaction.from_string; 'nocomp': generic substances without composition (no balance check)"""
        if rng.random() < 0.3:
            return None
        return {'seed': rng.randrange(10 ** 9), 'via': rng.choice(['system', 'system', 'reaction']), 'nocomp': rng.random() < 0.3}

    def _traj_case(self, rng, tier):
        kgen = lambda: rat_json(F(float('%.3g' % (10 ** rng.uniform(-2, 3)))))
        net = gen_network(rng, rng.randint(1, 5), first_order=False, kgen=kgen)
        if not net.rxns:
            return None
        subs = net.subs_json()
        c0 = [0.0 if rng.random() < 0.3 else float('%.4g' % (10 ** rng.uniform(-2, 0.5))) for _ in subs]
        if not any(c0):
            c0[0] = 1.0
        kmax = max(float(_fr(r['param'])) for r in net.rxns)
        tout = log_times(rng, 0.01 / kmax, 100 / kmax)
        tol = rng.choice([1e-6, 1e-8, 1e-9])
        return self._rand_opts(rng, {'kind': 'traj', 'subs': subs, 'rxns': net.rxns, 'c0': c0, 'tout': tout, 'atol': tol, 'rtol': tol,
                'integrator': rng.choice([None, 'scipy']), 'units': rand_units(rng, len(subs)) if rng.random() < 0.4 else None,
                'text': self._rand_text(rng), 'sysopt': rand_sysopt(rng)}, [k for k, _ in subs])

    def _history_case(self, rng, tier):
        """a parameter scan / refit on the SAME objects: build once, then per step re-assign rate constants (over decades), optionally
        touch the objects (rate_expr / rates / the old odesys), rebuild with get_odesys and integrate; every integration is compared
        with the exact solution for the CURRENT constants"""
        base = None
        while base is None:
            base = self._linear_case(rng, tier, max_decades=4) if rng.random() < 0.7 else self._bimol_case(rng, tier)
        base['units'] = base['text'] = base['sysopt'] = base['opts'] = None
        if base['kind'] == 'bimol' and base['which'] == 'dimer':
            base['which'] = 'irrev'
        nr = len(base['rxns']) if base['kind'] == 'linear' else 2
        steps = []
        for i in range(rng.randint(2, 4)):
            scale = [1.0] * nr if i == 0 else [1.0 if rng.random() < 0.3 else float('%.3g' % 10 ** rng.uniform(-2, 2)) for _ in range(nr)]
            if i > 0 and all(v == 1.0 for v in scale):
                scale[rng.randrange(nr)] = 100.0
            steps.append({'scale': scale, 'touch': rng.sample(['rate_expr', 'rates', 'get_odesys', 'string'], rng.randint(0, 2)),
                          'new_c0': rng.random() < 0.3})
        return {'kind': 'history', 'base': base, 'source': rng.choice(['from_string', 'from_string', 'ctor']), 'steps': steps,
                'seed': rng.randrange(10 ** 9)}

    def generate(self, rng, n, tier):
        cases = []
        n_int = max(40, n // 5) if tier == 'quick' else n // 6
        n_int = min(n_int, n)
        for i in range(n):
            c = None
            while c is None:
                if i < n_int:
                    r = (i * 7919) % 20
                    c = (self._history_case(rng, tier) if r in (3, 9, 15) else self._linear_case(rng, tier) if r < 12
                         else self._bimol_case(rng, tier) if r < 17 else self._traj_case(rng, tier))
                else:
                    r = rng.random()
                    if r < 0.76:
                        c = self._euler_case(rng, tier)
                    elif r < 0.88:
                        net = gen_network(rng, rng.randint(1, 4), first_order=False, kgen=lambda: self._kdy(rng))
                        comps = [[[e, rat_json(F(v) * rng.choice([1, 1, F(1, 2), 2]))] for e, v in comp] for _, comp in net.subs_json()]
                        if rng.random() < 0.15:
                            comps.append([[0, -1]])                      # only a charge: unbounded
                        if rng.random() < 0.1:
                            comps.append([])
                        init = [rat_json(F(rng.randint(0, 40), rng.choice([1, 2, 3, 7, 8]))) for _ in comps]
                        if rng.random() < 0.06:
                            init = init[:-1]
                        c = {'op': 'upper_conc_bounds', 'comps': comps, 'init': init} if comps else None
                    else:
                        fo = rng.random() < 0.85
                        net = gen_network(rng, rng.randint(1, 6), first_order=fo, kgen=lambda: self._kdy(rng, wide=True))
                        if net.rxns:
                            c = {'op': 'first_order_matrix', 'subs': net.subs_json(), 'rxns': net.rxns, 'fseed': rng.randrange(10 ** 9)}
            cases.append(c)
        for w in self.REFUSALS:
            cases.append({'kind': 'refusal', 'what': w, 'k': [float('%.3g' % 10 ** rng.uniform(-2, 2)), float('%.3g' % 10 ** rng.uniform(-2, 2))],
                          'n': rng.choice([1, 3, 4])})
        rng.shuffle(cases)
        return cases

    def model_case(self, case):
        op = case.get('op')
        if op == 'max_euler_step_cb':
            mc = {'op': op, 'keys': [k for k, _ in case['subs']], 'comps': [comp for _, comp in case['subs']],
                  'rxns': case['rxns'], 'states': case['states'], 'pre': case.get('pre')}
            bo = case.get('bopt') or {}
            mc['bopt'] = bo or None
            mc['quirk'] = case.get('planted') == 'zero-coefficient'
            if bo.get('cstr'):
                mc['op'] = 'max_euler_step_cb_cstr'
                mc['fr'], mc['fc'] = bo['cstr']['fr'], bo['cstr']['fc']
            so = case.get('sysopt')
            if so:
                # ScaledSys works on y_int = s*y, t_int = tau*t; for mass action of order n that IS the plain system with
                # k_int = k * s^(1-n) / tau (exact for powers of two), so the model is asked about that system at the state s*y;
                # the step the callback returns is the one in t_int (it is handed to the solver as `first_step`).
                sd, ti = _fr(so['dep']), _fr(so['indep'])
                mc['user_rxns'], mc['user_states'], mc['sysopt'] = case['rxns'], case['states'], so
                mc['rxns'] = [dict(r, param=rat_json(_fr(r['param']) * sd ** (1 - sum(n for _, n in r['reac'])) / ti)) for r in case['rxns']]
                mc['states'] = [[rat_json(_fr(v) * sd) for v in st] for st in case['states']]
            return mc
        if op == 'upper_conc_bounds':
            return {'op': op, 'comps': case['comps'], 'init': case['init']}
        if op == 'first_order_matrix':
            return {'op': op, 'keys': [k for k, _ in case['subs']], 'rxns': case['rxns']}
        return None

    def classify(self, case):
        if case.get('op') == 'max_euler_step_cb':
            return 'euler:%s:nr=%d%s' % (case.get('planted'), len(case['rxns']), ':after-history' if case.get('pre') else '') + (':ScaledSys' if case.get('sysopt') else '') + (':' + '-'.join(map(str, sorted((case.get('bopt') or {}).items())[0][:1] + ((case['bopt'].get('pmode'),) if case['bopt'].get('pmode') else ()))) if case.get('bopt') else '')
        if case.get('op'):
            return case['op']
        k = case.get('kind')
        if k == 'linear':
            ks = [float(_fr(r['param'])) for r in case['rxns']]
            return 'explore:linear:decades=%d%s' % (round(math.log10(max(ks) / min(ks))), self._utag(case))
        if k == 'bimol':
            return 'explore:bimol:' + case['which'] + self._utag(case)
        if k == 'refusal':
            return 'refusal:' + case['what']
        if k == 'history':
            return 'explore:history:%s:%s:steps=%d' % (case['base']['kind'], case['source'], len(case['steps']))
        return 'explore:%s%s' % (k, self._utag(case))

    def _utag(self, case):
        un = case.get('units')
        op = case.get('opts') or {}
        extra = (':ScaledSys' if case.get('sysopt') else '') + ''.join(':' + (k if k != 'params' else 'params-' + op[k]) for k in sorted(op) if op[k] and k != 'scan') + (':text-%s%s' % (case['text']['via'], '-nocomp' if case['text'].get('nocomp') else '')
                                                                if case.get('text') else '')
        if not un:
            return extra
        return extra + ':units-%s-%s' % (un['form'], 'mixed' if len(set(un['conc'])) > 1 else 'uniform')

    def nontrivial(self, case):
        return bool(case.get('rxns')) or case.get('op') == 'upper_conc_bounds' or case.get('kind') in ('bimol', 'history', 'refusal')

    # ---- real objects -----------------------------------------------------------------------
    def _build(self, subs, rxns, pre=None, sysopt=None, bopt=None):
        """-> (rsys, odesys | exception, extra) for a case; cached between impl and oracle.
        `pre` = HISTORY before the state that is compared: a list of per-reaction scale vectors (powers of two). The SAME Reaction /
        ReactionSystem objects are first given the constants `param*scale`, used (get_odesys, rate_expr, rates, the callback), and
        then re-assigned (`rxn.param = ...`) — as in a parameter scan or refit; what is returned is built from the final constants."""
        key = json.dumps([subs, rxns, pre, sysopt, bopt], sort_keys=True)
        if key in self._cache:
            return self._cache[key]
        from chempy import ReactionSystem, Substance
        from chempy.kinetics.ode import get_odesys
        substances = OrderedDict((name, Substance(name, composition=OrderedDict((int(e), int(v)) for e, v in comp)))
                                 for name, comp in subs)
        bopt = bopt or {}
        pmode = bopt.get('pmode')
        rsys = ReactionSystem([kg.mk_reaction(r, 'float') for r in rxns], substances, checks=())
        final = [r.param for r in rsys.rxns]
        gk = dict(sys_kwargs(sysopt))
        self._pvals = OrderedDict()
        if bopt.get('cstr'):
            gk['cstr'] = True
            self._pvals['feedratio'] = float(_fr(bopt['cstr']['fr']))
            self._pvals.update(('fc_' + k, float(_fr(v))) for (k, _), v in zip(subs, bopt['cstr']['fc']))
        pvals = self._pvals
        for scales in (pre or []):
            for r, k, sc in zip(rsys.rxns, final, scales):
                r.param = k * float(_fr(sc))
            try:
                with warnings.catch_warnings():
                    warnings.simplefilter('ignore')
                    for r in rsys.rxns:
                        r.rate_expr()
                    rsys.rates({k: 1.0 for k in rsys.substances})
                    _o, _e = get_odesys(rsys)
                    if _e['max_euler_step_cb'] is not None:
                        _e['max_euler_step_cb'](0, [1.0] * len(substances))
            except Exception:
                pass
        for r, k in zip(rsys.rxns, final):
            r.param = k
        if pmode:          # the same constants, but handed over as parameters / substitutions instead of being part of the reactions
            from chempy.kinetics.rates import MassAction
            names_k = ['k%d' % j for j in range(len(rsys.rxns))]
            for r, nm, k in zip(rsys.rxns, names_k, final):
                r.param = (MassAction([k], unique_keys=[nm]) if pmode == 'unique' else MassAction(None, [nm]) if pmode == 'keyonly'
                           else MassAction.fk(nm))
            if pmode == 'subst':
                gk['substitutions'] = OrderedDict(zip(names_k, final))
            else:
                gk['include_params'] = False
                self._pvals.update(zip(names_k, final))
        try:
            with warnings.catch_warnings():
                warnings.simplefilter('ignore')
                odesys, extra = get_odesys(rsys, **gk)
        except (ValueError, TypeError) as e:       # ValueError: a substance without rate entry; TypeError: no reaction at all
            odesys, extra = e, None
        if len(self._cache) > 8:
            self._cache.clear()
        if extra is not None:
            extra = dict(extra, _pvals=dict(pvals))
        self._cache[key] = (rsys, odesys, extra)
        return self._cache[key]

    def impl(self, mc):
        import numpy as np
        op = mc['op']
        with warnings.catch_warnings():
            warnings.simplefilter('ignore')
            if op in ('max_euler_step_cb', 'max_euler_step_cb_cstr'):
                subs = list(zip(mc['keys'], mc['comps']))
                so = mc.get('sysopt')
                sd = float(_fr(so['dep'])) if so else 1.0
                rsys, odesys, extra = self._build([list(s) for s in subs], mc.get('user_rxns', mc['rxns']), mc.get('pre'), so, mc.get('bopt'))
                if extra is None:                                   # get_odesys / pyodesys refused the system
                    if isinstance(odesys, TypeError) and rsys.check_balance(strict=True) is not True:
                        return 'None'                               # (the model asks the gate first)
                    return '|'.join([type(odesys).__name__] * len(mc['states']))
                cb = extra['max_euler_step_cb']
                if cb is None:
                    return 'None'
                out = []
                for st in mc.get('user_states', mc['states']):
                    y = [float(_fr(v)) for v in st]
                    yi = [v * sd for v in y]                        # the solver's (pre-processed) variables
                    pv = extra['_pvals']
                    try:
                        h = cb(0, y, pv) if pv else cb(0, y)
                        f = odesys.f_cb(0, np.array(yi), [pv[k] for k in odesys.param_names])
                        ub = rsys.upper_conc_bounds(yi)
                        out.append('%r;[%s];[%s]' % (float(h), ','.join(repr(float(v)) for v in f), ','.join(repr(float(v)) for v in ub)))
                    except Exception as e:
                        out.append(type(e).__name__)
                return '|'.join(out)
            if op == 'upper_conc_bounds':
                from chempy import ReactionSystem, Substance
                subs = OrderedDict(('S%d' % i, Substance('S%d' % i, composition=OrderedDict((int(e), _fr(v)) for e, v in comp)))
                                   for i, comp in enumerate(mc['comps']))
                rsys = ReactionSystem([], subs, checks=())
                try:
                    r = rsys.upper_conc_bounds(np.array([_fr(v) for v in mc['init']] + [None], dtype=object)[:-1], dtype=object)
                except Exception as e:
                    return type(e).__name__
                # `composition_conc = defaultdict(float)`: 0.0 + Fraction is a float, so the result is a float also for exact input
                return '[' + ','.join('inf' if isinstance(v, float) and math.isinf(v) else repr(float(v)) for v in r) + ']'
            if op == 'first_order_matrix':
                subs = [[k, [[1, 1]]] for k in mc['keys']]
                rsys, odesys, extra = self._build(subs, mc['rxns'])
                if not all([(k, int(v)) for k, v in r.reac.items()] == [(list(r.reac)[0], 1)] and len(r.reac) == 1 for r in rsys.rxns):
                    return 'NotFirstOrder'
                n = len(mc['keys'])
                cols = []
                for j in range(n):
                    e = np.zeros(n)
                    e[j] = 1.0
                    cols.append([F(float(v)) for v in odesys.f_cb(0, e, ())])
                return '[' + ','.join(show_rat_list([cols[j][i] for j in range(n)]) for i in range(n)) + ']'
        raise ValueError(op)

    def same(self, mc, impl_out, model_out):
        if mc['op'] == 'upper_conc_bounds':
            if not (impl_out.startswith('[') and model_out.startswith('[')):
                return impl_out == model_out
            a, b = [v for v in impl_out[1:-1].split(',') if v], [v for v in model_out[1:-1].split(',') if v]
            return len(a) == len(b) and all((u == 'inf') == (v == 'inf') and (u == 'inf' or close(float(u), F(v), 1e-12))
                                            for u, v in zip(a, b))
        if mc['op'] not in ('max_euler_step_cb', 'max_euler_step_cb_cstr'):
            return impl_out == model_out
        a, b = impl_out.split('|'), model_out.split('|')
        if len(a) != len(b):
            return False
        seen = []
        for x, y in zip(a, b):
            seen.append(1)
            if y == 'ZeroDivisionError' and ';' in x:
                # QUIRK bucket (documented divergence, no claim): a zero composition coefficient makes the exact model refuse, whereas
                # numpy computes total/0 = inf or 0/0 = nan and Python's min() then ignores a nan unless it comes first
                # ({1: 1, 6: 0} -> finite bound, {6: 0, 1: 1} -> nan): float semantics the exact model cannot express
                if not mc.get('quirk'):
                    return False
                continue
            if ';' not in x or ';' not in y:
                if x != y:
                    return False
                continue
            hx, fx, ux = x.split(';')
            hy, fy, uy = y.split(';')
            if not close(float(hx), F(hy), self.float_tol):
                return False
            lf = lambda s: [v for v in s[1:-1].split(',') if v != '']
            # ScaledSys evaluates k*s/tau*(y/s)^n term by term: exact for powers of two up to the summation of large terms, so its
            # derivative is compared relative to the largest component (plain systems: per component, exact inputs)
            fabs = [0.0] * len(lf(fy))
            if mc.get('sysopt'):      # cancellation between large terms (k1*B vs k2*C^3): tolerance relative to sum |terms|, per component
                st = mc['states'][len(seen) - 1] if len(seen) <= len(mc['states']) else None
                if st is not None and len(st) == len(mc['keys']):
                    _f, mag = indep_rhs([[k, c] for k, c in zip(mc['keys'], mc['comps'])], mc['rxns'], [float(_fr(v)) for v in st])
                    fabs = [1e-12 * m for m in mag]
            for (u, v), fa in zip(zip(lf(fx), lf(fy)), fabs):
                if not close(float(u), F(v), 1e-12, fa):
                    return False
            for u, v in zip(lf(ux), lf(uy)):
                if (v == 'inf') != (u == 'inf') or (v != 'inf' and not close(float(u), F(v), 1e-12)):
                    return False
            if len(lf(fx)) != len(lf(fy)) or len(lf(ux)) != len(lf(uy)):
                return False
        return True

    # ---- oracle -----------------------------------------------------------------------------
    def oracle(self, case):
        with warnings.catch_warnings():
            warnings.simplefilter('ignore')
            op = case.get('op')
            if op == 'max_euler_step_cb':
                return self._oracle_euler(case)
            if op == 'upper_conc_bounds':
                return self._oracle_bounds(case)
            if op == 'first_order_matrix':
                return self._oracle_linear_rhs(case)
            kind = case.get('kind')
            if kind == 'linear':
                return self._oracle_linear(case)
            if kind == 'bimol':
                return self._oracle_bimol(case)
            if kind == 'traj':
                return self._oracle_traj(case)
            if kind == 'history':
                return self._oracle_history(case)
            if kind == 'refusal':
                return self._oracle_refusal(case)
        return None

    def _euler_claim(self, subs, rxns, y, h, cap, where='', feed=None):
        """the advertised step `h` (already in the USER's time scale, cap = largest value the callback may return there) at the
        non-negative state `y` (user scale, substance order of `subs`): 0 <= h <= cap, one explicit Euler step keeps every
        concentration in [0, elemental bound], and h is the largest such step <= cap (f and the bounds recomputed here)"""
        ns = len(subs)
        f, mag = indep_rhs(subs, rxns, y, feed)
        ub = indep_bounds(subs, y)
        # (open system: a species that holds all of an element sits ON its "elemental bound"; with a feed pushing it up the callback
        #  computes (ub - y)/f with ub - y = rounding noise of either sign, i.e. a step of +-1e-17: accepted as zero there only)
        #  a negative value whose whole effect |h*f_i| is below 1e-14 of the concentration scale (a few ulp of ub - y) counts as the zero step; triaged:
        #  the closed-system bound is no limit of an open tank, h = 0 satisfies the clause)
        cscale = max([abs(y[i]) + (ub[i] if math.isfinite(ub[i]) else 0) for i in range(ns)] + [1e-300])      # of the whole state: an element
        # that is absent has y = ub = 0 for all its species, but the feed still moves them by h*f
        if feed and h < 0 and all(abs(h * f[i]) <= 1e-14 * cscale for i in range(ns)):
            return None
        if not (0 <= h <= cap * (1 + 1e-12)):
            return 'max_euler_step_cb: step %r (user time scale) outside [0, %r] at y=%r%s' % (h, cap, y, where)
        best, skipped = math.inf, False
        for i in range(ns):
            tol = 1e-9 * (abs(y[i]) + h * mag[i] + (ub[i] if math.isfinite(ub[i]) else 0)) + 1e-300
            yn = y[i] + h * f[i]
            if yn < -tol:
                return 'Euler step h=%r makes %s negative: %r + h*%r = %r (y=%r)%s' % (h, subs[i][0], y[i], f[i], yn, y, where)
            if yn > ub[i] + tol:
                return 'Euler step h=%r takes %s above its elemental bound %r: %r (y=%r)%s' % (h, subs[i][0], ub[i], yn, y, where)
            # the limit of component i carries the relative error eps*mag/|f| (derivative) + 4 eps*ub/(ub - y) (upper side, also inside
            # the callback); it takes part in the maximality check when that is below 2e-8, otherwise only that component is left out
            if f[i] == 0:
                continue
            if abs(f[i]) < 1e-8 * mag[i] or (f[i] > 0 and 0 < ub[i] - y[i] < 2e-8 * ub[i]):
                skipped = True
                continue
            best = min(best, (ub[i] - y[i]) / f[i] if f[i] > 0 else -y[i] / f[i])
        want = min(best, cap)
        if h > want * (1 + 1e-7) + 1e-300:
            return 'max_euler_step_cb returned h=%r, longer than the largest safe step <= %r, which is %r (y=%r)%s' % (h, cap, want, y, where)
        if not skipped and abs(h - want) > 1e-7 * max(want, 1e-300) and not (want == 0 and h == 0):
            return 'max_euler_step_cb returned h=%r, the largest safe step <= %r is %r (y=%r)%s' % (h, cap, want, y, where)
        return None

    def _oracle_euler(self, case):
        subs, rxns = case['subs'], case['rxns']
        if case.get('planted') in ('unbalanced', 'nonparticipating', 'zero-coefficient') or not rxns:
            return None
        so = case.get('sysopt')
        rsys, odesys, extra = self._build(subs, rxns, case.get('pre'), so, case.get('bopt'))
        if extra is None:      # a planted balanced system in which every substance takes part must be built
            return 'get_odesys refused a balanced system: %s: %s' % (type(odesys).__name__, odesys)
        raw_cb, pv = extra['max_euler_step_cb'], extra['_pvals']
        cb = None if raw_cb is None else ((lambda x, y: raw_cb(x, y, pv)) if pv else raw_cb)
        cs = (case.get('bopt') or {}).get('cstr')
        feed = (float(_fr(cs['fr'])), [float(_fr(v)) for v in cs['fc']]) if cs else None
        if cb is None:
            return 'a balanced system with compositions got no max_euler_step_cb'
        rng = random.Random(case.get('fseed', 0))
        ns = len(subs)
        tau = float(_fr(so['indep'])) if so else 1.0          # the returned step is in the solver's time t_int = tau * t
        where = ' [ScaledSys dep_scaling=%r indep_scaling=%r]' % (float(_fr(so['dep'])), tau) if so else ''
        states = [[float(_fr(v)) for v in st] for st in case['states'] if len(st) == ns and all(_fr(v) >= 0 for v in st)]
        for _ in range(6):                                      # random float states, several decades, some zeros
            states.append([0.0 if rng.random() < 0.25 else 10 ** rng.uniform(-4, 1.5) for _ in range(ns)])
        for y in states:
            f = self._euler_claim(subs, rxns, y, float(cb(0, y)) / tau, 1.0 / tau, where, feed)
            if f:
                return f
        return None

    def _oracle_bounds(self, case):
        comps, init = case['comps'], [_fr(v) for v in case['init']]
        if len(init) != len(comps):
            return None
        out = self.impl(self.model_case(case))
        if not out.startswith('['):
            return 'upper_conc_bounds raised %s' % out
        got = out[1:-1].split(',') if out != '[]' else []
        tot = {}
        for comp, c in zip(comps, init):
            for e, v in comp:
                if e != 0:
                    tot[e] = tot.get(e, 0) + _fr(v) * c
        for g, comp, c in zip(got, comps, init):
            cand = [tot[e] / _fr(v) for e, v in comp if e != 0]
            if (g == 'inf') != (not cand) or (cand and not close(float(g), min(cand), 1e-12)):
                return 'upper_conc_bounds gives %s, min over elements of total/coefficient is %s' % (g, min(cand) if cand else 'inf')
            if cand and c > min(cand):
                return 'bound below the state itself'
        return None

    def _oracle_linear_rhs(self, case):
        import numpy as np
        subs, rxns = case['subs'], case['rxns']
        if not all(len(r['reac']) == 1 and r['reac'][0][1] == 1 for r in rxns):
            return None
        names = [k for k, _ in subs]
        rsys, odesys, extra = self._build([[k, [[1, 1]]] for k in names], rxns)
        if extra is None:
            return None
        M = first_order_M(names, rxns)
        rng = random.Random(case.get('fseed', 0))
        for _ in range(3):
            c = [F(rng.randint(0, 32), 8) for _ in names]
            got = [F(float(v)) for v in odesys.f_cb(0, np.array([float(v) for v in c]), ())]
            want = [sum(M[i][j] * c[j] for j in range(len(names))) for i in range(len(names))]
            if got != want:
                return 'generated right-hand side %s differs from M c = %s at c=%s' % (list(map(str, got)), list(map(str, want)), list(map(str, c)))
        for i in range(len(names)):
            for j in range(len(names)):
                if i != j and M[i][j] < 0:
                    return 'negative off-diagonal entry'
        return None

    # ---- exploration: the delegated integrator ----------------------------------------------
    def _integrate(self, case, subs, rxns, c0d, rsys=None, reuse=False):
        """text -> from_string -> get_odesys -> integrate; -> (names, tout [s], yout [molar], rsys, cb) or a failure string.
        With case['units'] the unit-aware pipeline is driven (get_odesys(unit_registry=SI_base_registry), rate constants, initial
        concentrations and output times carrying units — a unit per entry —, c0 as dict / list / quantity array) and the
        results are converted back to molar and seconds. `cb(y)` calls max_euler_step_cb on a state given in molar, names order."""
        import numpy as np
        from chempy import ReactionSystem, Substance
        from chempy.kinetics.ode import get_odesys
        comps = {k: OrderedDict((int(e), int(v)) for e, v in comp) for k, comp in subs}
        un = case.get('units')
        kw = {'atol': case['atol'], 'rtol': case['rtol'], 'nsteps': 50000}
        if case.get('integrator'):
            kw['integrator'] = case['integrator']
        tx = case.get('text') or {}
        trng = random.Random(tx['seed']) if tx.get('seed') is not None else None     # how the reactions are WRITTEN
        nocomp = bool(tx.get('nocomp'))
        factory = (lambda name: Substance(name)) if nocomp else (lambda name: Substance(name, composition=comps[name]))
        so = case.get('sysopt')
        sd, tau = (float(_fr(so['dep'])), float(_fr(so['indep']))) if so else (1.0, 1.0)
        kw['atol'] = kw['atol'] * sd            # the tolerance applies to the solver's variables s*y; case['atol'] is in the user's scale

        def from_text(lines):
            if tx.get('via') == 'reaction':   # Reaction.from_string per line + constructor, instead of ReactionSystem.from_string
                from chempy import Reaction
                keys = [k for k, _ in subs]
                return ReactionSystem([Reaction.from_string(l, keys) for l in lines], OrderedDict((k, factory(k)) for k in keys))
            return ReactionSystem.from_string('\n'.join(lines), substance_factory=factory)
        # builder options (case['opts']): rate constants as free parameters (include_params=False; 'named' = string keys in the text,
        # 'unique' = MassAction([k], unique_keys=[name]) through the constructor), stirred tank (cstr=True: feed ratio and feed
        # concentrations as parameters), PartiallySolvedSystem over extra['linear_dependencies'], default substance factory (formulas)
        op = case.get('opts') or {}
        pm, cs, part = op.get('params'), op.get('cstr'), op.get('partial')
        gk = dict(sys_kwargs(so))
        if pm and pm not in ('subst', 'active'):
            gk['include_params'] = False
        if cs:
            gk['cstr'] = True
        pvals = OrderedDict()
        if pm == 'active':      # the named constants are rate-constant EXPRESSIONS of a parameter: k_j = A_j exp(-E_j / temperature),
            import math as _m     # bound through `substitutions` (evaluated inside dydt); A_j chosen so that k_j is the case's constant
            from chempy.util._expr import Expr
            Arr = Expr.from_callback(lambda args, T, backend=_m: args[0] * backend.exp(-args[1] / T), parameter_keys=('temperature',), nargs=2)
            T = op.get('T', 300.0)
            gk['substitutions'] = OrderedDict(('k%d' % j, Arr([float(_fr(r['param'])) * _m.exp(op['E'][j % len(op['E'])] / T), op['E'][j % len(op['E'])]]))
                                              for j, r in enumerate(rxns))
            if op.get('free'):
                gk['include_params'] = False
            pvals['temperature'] = T
        elif pm == 'subst':       # the named constants are bound at build time through `substitutions` (plain numbers / quantities)
            gk['substitutions'] = OrderedDict(('k%d' % j, float(_fr(r['param']))) for j, r in enumerate(rxns))
        elif pm:
            pvals.update(('k%d' % j, float(_fr(r['param']))) for j, r in enumerate(rxns))
        if cs:
            pvals['feedratio'] = cs['fr']
            pvals.update(('fc_' + k, v) for (k, _), v in zip(subs, cs['fc']))

        def named(lines):
            return [l.rsplit(';', 1)[0] + "; 'k%d'" % j for j, l in enumerate(lines)] if pm in ('named', 'subst', 'active') else lines

        def build(lines):
            if pm in ('unique', 'keyonly'):
                from chempy import Reaction
                from chempy.kinetics.rates import MassAction
                keys = [k for k, _ in subs]
                return ReactionSystem([Reaction(OrderedDict(map(tuple, r['reac'])), OrderedDict(map(tuple, r['prod'])),
                                                (MassAction([float(_fr(r['param']))], unique_keys=['k%d' % j]) if pm == 'unique'
                                                 else MassAction(None, ['k%d' % j])),
                                                inact_reac=OrderedDict(map(tuple, r['inact_reac'])),
                                                inact_prod=OrderedDict(map(tuple, r['inact_prod'])))
                                       for j, r in enumerate(rxns)], OrderedDict((k, factory(k)) for k in keys))
            if tx.get('formulas'):            # real formulas: the default substance factory parses the compositions
                return ReactionSystem.from_string('\n'.join(named(lines)))
            return from_text(named(lines))
        if not un:
            if reuse:
                rsys, odesys, extra = self._last
            else:
                if rsys is None:
                    rsys = build([rxn_text(r, trng) for r in rxns])
                odesys, extra = get_odesys(rsys, **gk)
                self._last = (rsys, odesys, extra)
            isys = odesys
            if part:
                from pyodesys.symbolic import PartiallySolvedSystem
                try:
                    isys = PartiallySolvedSystem(odesys, extra['linear_dependencies'](part.get('preferred')))
                except ValueError as e:
                    if 'Failed to obtain analytic expression' in str(e) or 'Cannot remove all' in str(e):
                        return 'refused: %s' % e
                    raise
            iargs = ([0.0] + list(case['tout']), c0d) + ((dict(pvals),) if pvals else ())
            res = isys.integrate(*iargs, **kw)
            xout, yout = np.asarray(res.xout), np.asarray(res.yout)
            raw_cb = extra['max_euler_step_cb']
            # the callback returns the step in the solver's time t_int = tau*t (it is meant as `first_step`): user scale = h/tau
            cb = None if raw_cb is None else (lambda y: float(raw_cb(0, list(y), *((dict(pvals),) if pvals else ()))) / tau)
        else:
            from chempy.units import SI_base_registry, to_unitless, default_units as u
            ulines = [rxn_text_units(r, un['k_conc'], un['k_time'], trng) for r in rxns]
            rsys = from_text(named(ulines))
            kwo = {}
            if pm:        # the constants are passed as unit-carrying parameters / substitutions instead of being written into the text
                kq = OrderedDict()
                for j, r in enumerate(rxns):
                    order = sum(n for _, n in r['reac'])
                    kv = float(_fr(r['param'])) * unit_factor(un['k_time']) * unit_factor(un['k_conc']) ** (order - 1)
                    kq['k%d' % j] = kv * unit_of(un['k_conc']) ** (1 - order) / unit_of(un['k_time'])
                if pm == 'subst':
                    kwo['substitutions'] = kq
                else:
                    kwo['include_params'] = False
                    pvals.update(kq)
            if un.get('out_conc'):
                kwo['output_conc_unit'] = unit_of(un['out_conc'])
            if un.get('out_time'):
                kwo['output_time_unit'] = unit_of(un['out_time'])
            kwo.update(sys_kwargs(so))
            odesys, extra = get_odesys(rsys, unit_registry=SI_base_registry, **kwo)
            cunit = dict(zip([k for k, _ in subs], un['conc']))

            def pack(yd):
                q = OrderedDict((k, (yd[k] / unit_factor(cunit[k])) * unit_of(cunit[k])) for k in yd)
                if un['form'] == 'dict':
                    return q
                if un['form'] == 'list':
                    return [q[k] for k in odesys.names]
                return rsys.as_per_substance_array(q, unit=unit_of(un['conc'][0]))
            tu = un['time']
            tq = np.array([0.0] + [t / unit_factor(tu) for t in case['tout']]) * unit_of(tu)
            res = odesys.integrate(tq, pack(c0d), *((dict(pvals),) if pvals else ()), **kw)
            xout = np.asarray(to_unitless(res.xout, u.second), dtype=float)
            yout = np.asarray(to_unitless(res.yout, u.molar), dtype=float)
            raw_cb = extra['max_euler_step_cb']
            # SI_base_registry: the internal time unit is the second, so the returned (unitless) step is in tau * seconds
            cb = None if raw_cb is None else (lambda y: float(raw_cb(0 * unit_of(tu), pack(dict(zip(odesys.names, y))),
                                                                     *((dict(pvals),) if pvals else ()))) / tau)
        if cb is not None:
            cb.cap = 1.0 / tau
            cb.rxns = rxns
            if cs:
                cb.feed = (cs['fr'], {k: v for (k, _), v in zip(subs, cs['fc'])})
        if nocomp:
            if raw_cb is not None:
                return 'substances without composition got a max_euler_step_cb'
            cb = 'nocomp'
        if not res.info.get('success', False):
            return 'integration reported failure: %r' % {k: v for k, v in res.info.items() if not k.startswith('internal')}
        names = list(odesys.names)
        if sorted(names) != sorted(comps):
            return 'odesys.names %r differ from the substances of the text %r' % (names, sorted(comps))
        if xout.shape != (len(case['tout']) + 1,) or not np.allclose(xout[1:], case['tout'], rtol=1e-11, atol=0):
            return 'output times %r are not the requested ones %r' % (xout.tolist(), case['tout'])
        want0 = np.array([c0d[k] for k in names])
        # (PartiallySolvedSystem recomputes the eliminated concentrations from the invariants: rounding of the order 1e-16*max c0)
        if yout.shape != (len(case['tout']) + 1, len(names)) or not np.allclose(yout[0], want0, rtol=1e-11, atol=1e-14 * want0.max() if part else 0):
            return 'first output row %r is not the initial state %r' % (yout[0].tolist(), want0.tolist())
        return names, xout, yout, rsys, cb

    def _atol(self, case):
        """the requested absolute tolerance in molar: with a unit registry it applies to the internal numbers (mol/m3)"""
        return case['atol'] * (1e-3 if case.get('units') else 1.0)

    def _accurate(self, case, name, t, got, ref, refmax):
        """per-component accuracy of one output value; None or a failure text"""
        atol, rtol = self._atol(case), case['rtol']
        err = abs(got - ref)
        local = atol + rtol * abs(ref)
        self.meas['acc'].append(err / local)
        self.meas['acc_rest'].append((err, local, rtol * refmax))
        tol = ACC_F * local + ACC_G * rtol * refmax
        if not err <= tol:
            return ('integrated %s(t=%g) = %r, exact solution %r: |diff| %.3g > %.3g = %g*(atol + rtol*|ref|) + %g*rtol*max|ref| '
                    '(atol %g, rtol %g)' % (name, t, got, ref, err, tol, ACC_F, ACC_G, atol, rtol))
        return None

    def _admissible(self, case, subs, names, yout, c0d, open_system=False):
        """along the trajectory, per component: c_i >= -tol_i, c_i <= ub_i + tol_i with tol_i = BOUND_F*(atol + rtol*ub_i);
        element totals and charge kept"""
        order = {k: i for i, k in enumerate(names)}
        subs_o = sorted(subs, key=lambda s: order[s[0]])
        c0 = [c0d[k] for k in names]
        ub = indep_bounds(subs_o, c0)
        atol, rtol = self._atol(case), case['rtol']
        cmax = [max(abs(float(row[i])) for row in yout) for i in range(len(names))]
        for row in yout:
            for i, v in enumerate(row):
                if not math.isfinite(v):
                    return 'non-finite concentration of %s' % names[i]
                if open_system:                       # stirred tank: material flows in and out, no elemental bound, no conserved totals
                    ub[i] = math.inf
                unit = atol + rtol * (ub[i] if math.isfinite(ub[i]) else cmax[i])
                self.meas['neg'].append(max(0.0, -v) / unit)
                self.meas['over'].append(max(0.0, v - ub[i]) / unit)
                if v < -BOUND_F * unit:
                    return 'concentration of %s becomes negative: %r (tolerance %g = %g*(atol + rtol*bound))' % (names[i], v, BOUND_F * unit, BOUND_F)
                if v > ub[i] + BOUND_F * unit:
                    return 'concentration of %s = %r exceeds its elemental upper bound %r (tolerance %g)' % (names[i], v, ub[i], BOUND_F * unit)
            keys = [] if open_system else sorted({e for _, comp in subs_o for e, _ in comp})
            for e in keys:
                a = [dict(map(tuple, comp)).get(e, 0) for _, comp in subs_o]
                t0 = sum(aj * c for aj, c in zip(a, c0))
                t1 = sum(aj * c for aj, c in zip(a, row))
                unit = sum(abs(aj) * (atol + rtol * cm) for aj, cm in zip(a, cmax))
                if unit > 0:
                    self.meas['drift'].append(abs(t1 - t0) / unit)
                    if abs(t1 - t0) > DRIFT_F * unit:
                        return 'total of composition key %d drifts from %r to %r (tolerance %g)' % (e, t0, t1, DRIFT_F * unit)
        return None

    def _expm_ref(self, M, c0, t):
        import numpy as np
        import scipy.linalg
        A = np.array([[float(v) for v in row] for row in M])
        if np.abs(A).sum(axis=0).max() * t <= 100:
            return scipy.linalg.expm(A * t) @ np.array(c0)
        import mpmath
        with mpmath.workdps(40 + int(math.log10(np.abs(A).max() * t + 10))):
            E = mpmath.expm(mpmath.matrix([[mpmath.mpf(float(v)) * t for v in row] for row in M]))
            r = E * mpmath.matrix([mpmath.mpf(v) for v in c0])
            return np.array([float(v) for v in r])

    def _oracle_linear(self, case):
        subs, rxns = case['subs'], case['rxns']
        c0d = {k: v for (k, _), v in zip(subs, case['c0'])}
        op = case.get('opts') or {}
        runs = [(rxns, False)]
        if op.get('params') and op.get('scan'):           # parameter scan the intended way: same odesys, other parameter values
            runs += [([dict(r, param=rat_json(F(float(_fr(r['param'])) * sc))) for r, sc in zip(rxns, scl)], True) for scl in op['scan']]
        for cur, reuse in runs:
            r = self._integrate(case, subs, cur, c0d, reuse=reuse)
            where = ' [exp(M t) c0%s]' % (', scanned constants %r through the parameters of the same odesys' %
                                            [float(_fr(x['param'])) for x in cur] if reuse else '')
            if isinstance(r, str):
                if r.startswith('refused: '):
                    return None                             # the analytic solver refuses this `preferred` list (C05's subject)
                return r + where
            names, xout, yout, rsys, cb = r
            M = first_order_M(names, cur)
            c0 = [c0d[k] for k in names]
            cs = op.get('cstr')
            if cs:                                          # c' = (M - F I) c + F c_feed: exponential of the augmented matrix
                fc = dict(zip([k for k, _ in subs], cs['fc']))
                n = len(names)
                M = [[M[i][j] - (F(cs['fr']) if i == j else 0) for j in range(n)] + [F(cs['fr']) * F(fc[names[i]])] for i in range(n)]
                M.append([F(0)] * (n + 1))
                c0 = c0 + [1.0]
            for t, row in zip(xout[1:], yout[1:]):
                ref = self._expm_ref(M, c0, float(t))[:len(names)]
                refmax = max(abs(float(v)) for v in ref)
                for i, k in enumerate(names):
                    f = self._accurate(case, k, t, float(row[i]), float(ref[i]), refmax)
                    if f:
                        return f + where
            f = self._admissible(case, subs, names, yout, c0d, open_system=bool(cs)) or self._euler_along(subs, cur, names, yout, cb)
            if f:
                return f + where
        return None

    def _euler_along(self, subs, rxns, names, yout, cb, cap=1.0):
        """the Euler-step claim (safe AND maximal) at states taken from the trajectory, through the same entry point (unit-carrying,
        ScaledSys, ...); `cb(y)` returns the step in the user's time scale"""
        if cb == 'nocomp':
            return None
        if cb is None:
            return 'a balanced system with compositions got no max_euler_step_cb'
        cap = getattr(cb, 'cap', cap)
        order = {k: i for i, k in enumerate(names)}
        subs_o = sorted(subs, key=lambda s: order[s[0]])
        feed = getattr(cb, 'feed', None)
        if feed:
            feed = (feed[0], [feed[1][k] for k in names])
        rxns = getattr(cb, 'rxns', rxns)                  # the constants the callback was given (parameter scans)
        for row in yout:
            y = [max(float(v), 0.0) for v in row]
            f = self._euler_claim(subs_o, rxns, y, cb(y), cap, ' [trajectory state]', feed)
            if f:
                return f
        return None

    def _bimol_exact(self, case, t, A, B):
        """exact concentrations at time t (40 digits, then rounded once) of  A + B -> P (<- P)  resp.  2 A -> P:
        extent x' = kf (a0 - x)(b0 - x) - kb (p0 + x) = kf (x - r1)(x - r2)  (Riccati);  equal roots / [A]0 = [B]0 without back
        reaction: a(t) = 1/(1/a0 + kf t);  dimer: a' = -2 kf a^2, a(t) = 1/(1/a0 + 2 kf t)"""
        import mpmath
        with mpmath.workdps(40):
            mp = mpmath.mpf
            kf, kb, a0, b0, p0, t = mp(case['kf']), mp(case['kb']), mp(case['major']), mp(case['minor']), mp(case['prod']), mp(t)
            which = case['which']
            if which == 'dimer':
                a = 1 / (1 / a0 + 2 * kf * t)
                return {'A': float(a), 'P': float(p0 + (a0 - a) / 2)}
            if which in ('irrev', 'equal'):
                kb = mp(0)
            if kb == 0 and a0 == b0:
                a = 1 / (1 / a0 + kf * t)
                x = a0 - a
            else:
                bq = -(kf * (a0 + b0) + kb)
                cq = kf * a0 * b0 - kb * p0
                disc = mpmath.sqrt(bq * bq - 4 * kf * cq)
                r1, r2 = (-bq - disc) / (2 * kf), (-bq + disc) / (2 * kf)
                e = mpmath.exp(-kf * (r2 - r1) * t)
                x = mp(0) if r1 == 0 else r1 * (1 - e) / (1 - (r1 / r2) * e)
            return {A: float(a0 - x), B: float(b0 - x), 'P': float(p0 + x)}

    def _oracle_bimol(self, case):
        from chempy.kinetics import integrated
        which = case['which']
        A, B = ('B', 'A') if case['swap'] else ('A', 'B')        # A is the abundant one
        mk = lambda reac, prod, k: {'reac': reac, 'prod': prod, 'inact_reac': [], 'inact_prod': [], 'param': rat_json(F(k))}
        if which == 'dimer':
            subs = [['A', [[1, 1]]], ['P', [[1, 2]]]]
            rxns = [mk([['A', 2]], [['P', 1]], case['kf'])]
            c0d = OrderedDict([('A', case['major']), ('P', case['prod'])])
        else:
            subs = [['A', [[1, 1]]], ['B', [[6, 1]]], ['P', [[1, 1], [6, 1]]]]
            rxns = [mk([['A', 1], ['B', 1]], [['P', 1]], case['kf'])]
            if which in ('rev', 'equal_rev'):
                rxns.append(mk([['P', 1]], [['A', 1], ['B', 1]], case['kb']))
            c0d = OrderedDict([(A, case['major']), (B, case['minor']), ('P', case['prod'])])
        text = ' / '.join(rxn_text(r) for r in rxns)
        if case.get('units') and which == 'dimer':
            case = dict(case, units=dict(case['units'], conc=case['units']['conc'][:2]))
        inv = {}
        if (case.get('text') or {}).get('formulas'):      # real species read by the DEFAULT substance factory (formula parser)
            ren, fcomp = (({'A': 'NO2', 'P': 'N2O4'}, {'NO2': [[7, 1], [8, 2]], 'N2O4': [[7, 2], [8, 4]]}) if which == 'dimer' else
                          ({A: 'Fe+3', B: 'SCN-', 'P': 'FeSCN+2'},
                           {'Fe+3': [[26, 1], [0, 3]], 'SCN-': [[16, 1], [6, 1], [7, 1], [0, -1]],
                            'FeSCN+2': [[26, 1], [16, 1], [6, 1], [7, 1], [0, 2]]}))
            inv = {v: k for k, v in ren.items()}
            subs = [[ren[k], fcomp[ren[k]]] for k, _ in subs]
            rxns = [dict(r, **{part: [[ren[k], n] for k, n in r[part]] for part in ('reac', 'prod')}) for r in rxns]
            c0d = OrderedDict((ren[k], v) for k, v in c0d.items())
            pp = ((case.get('opts') or {}).get('partial') or {}).get('preferred')
            if pp:
                case = dict(case, opts={'partial': {'preferred': [ren[k] for k in pp if k in ren]}})
        r = self._integrate(case, subs, rxns, c0d)
        if isinstance(r, str):
            return None if r.startswith('refused: ') else r
        rnames, xout, yout, rsys, cb = r
        names = [inv.get(k, k) for k in rnames]
        # the library's closed forms are compared where they are defined and well-conditioned (binary_irrev is 0/0 for
        # [A]0 = [B]0 and cancels for [B]0/[A]0 -> 1); the accepted extra error is their own rounding error
        lib_ok = case['minor'] <= 0.9 * case['major']
        atol, rtol = self._atol(case), case['rtol']
        for t, row in zip(xout[1:], yout[1:]):
            got = dict(zip(names, map(float, row)))
            want = self._bimol_exact(case, float(t), A, B)
            refmax = max(want.values())
            for k in names:
                f = self._accurate(case, k, t, got[k], want[k], refmax)
                if f:
                    return f + ' [%s]' % text
            drel = (case['major'] - case['minor']) / case['major']
            tolP = ACC_F * (atol + rtol * abs(want['P'])) + ACC_G * rtol * refmax + (1e-9 if drel >= 0.1 else 1e-10 + 4 * 2.3e-16 / max(drel, 1e-300)) * refmax
            cf = None
            if which == 'irrev' and drel > 0:
                cf = ('binary_irrev', 'P', integrated.binary_irrev(float(t), case['kf'], case['prod'], case['major'], case['minor']))
            elif which in ('rev', 'equal_rev'):
                cf = ('binary_rev', 'P', integrated.binary_rev(float(t), case['kf'], case['kb'], case['prod'], case['major'], case['minor']))
            elif which == 'dimer':
                cf = ('dimerization_irrev', 'A', integrated.dimerization_irrev(float(t), case['kf'], case['major']))
            elif which == 'equal':      # A + B -> P with [A]0 = [B]0 = c0 is a' = -kf a^2, i.e. the dimerisation law with kf/2
                cf = ('dimerization_irrev(kf/2)', A, integrated.dimerization_irrev(float(t), case['kf'] / 2, case['major']))
            if cf is not None and not abs(got[cf[1]] - float(cf[2])) <= tolP:
                return 'integrated %s(t=%g) = %r, chempy.kinetics.integrated.%s gives %r [%s]' % (cf[1], t, got[cf[1]], cf[0], float(cf[2]), text)
        f = self._closed_form_sweep(case, A, B) or self._admissible(case, subs, rnames, yout, c0d)
        if f:
            return f
        return self._euler_along(subs, rxns, rnames, yout, cb)

    def _closed_form_sweep(self, case, A, B):
        """chempy's closed forms against the 40-digit reference (no integration involved) from the early to the FAST / LATE regime:
        kf*(major-minor)*t (resp. the relaxation rate times t) from 1e-3 to 1e4, numpy and math back-ends; a non-finite value or an
        exception is a failure (the exact value there is finite: prod + minor after completion)"""
        import math as _math
        from chempy.kinetics import integrated
        which = case['which']
        kf, kb, major, minor, prod = case['kf'], case['kb'], case['major'], case['minor'], case['prod']
        # binary_irrev = prod + major (1 - e)/(major/minor - e) cancels for [B]0/[A]0 -> 1: its own rounding error is about
        # eps/drel * max (measured on /repo, 8000 values: <= 0.35 eps/drel); accepted 1e-10 + 4 eps/drel — for drel >= 1e-7 that is well
        # below the concentration difference drel*major, so a shortcut that treats nearly equal as equal is seen (error ~ drel*major/2)
        drel = (major - minor) / major if which == 'irrev' else 1.0
        if which == 'irrev' and drel <= 0:
            return None
        ctol = 1e-9 if drel >= 0.1 else 1e-10 + 4 * 2.3e-16 / drel
        slow = kf * (major - minor) if which == 'irrev' else kf * major + (kb if which in ('rev', 'equal_rev') else 0)
        grid = [float('%.4g' % (10 ** (-3 + 0.7 * i) / slow)) for i in range(11)]
        if drel < 0.1:                                           # long times on the scale of the reactants: kf*major*t = 1e-3 ... 1e3
            grid += [float('%.4g' % (10 ** (-3 + 0.6 * i) / (kf * major))) for i in range(11)]
        for t in grid:
            want = self._bimol_exact(case, t, A, B)
            refmax = max(want.values())
            for be_name, be in (('numpy', None), ('math', _math)):
                try:
                    if which == 'irrev':
                        name, key, val = 'binary_irrev', 'P', integrated.binary_irrev(t, kf, prod, major, minor, backend=be)
                    elif which in ('rev', 'equal_rev'):
                        name, key, val = 'binary_rev', 'P', integrated.binary_rev(t, kf, kb, prod, major, minor, backend=be)
                    elif which == 'dimer':
                        name, key, val = 'dimerization_irrev', 'A', integrated.dimerization_irrev(t, kf, major)
                    else:
                        name, key, val = 'dimerization_irrev(kf/2)', A, integrated.dimerization_irrev(t, kf / 2, major)
                except Exception as e:
                    return ('chempy.kinetics.integrated closed form (%s backend) raises %s: %s at t=%g, kf=%g, major=%g, minor=%g, prod=%g '
                            '(exact value %r)' % (be_name, type(e).__name__, e, t, kf, major, minor, prod, want['P']))
                val = float(val)
                self.meas.setdefault('cf', []).append(abs(val - want[key]) / refmax if _math.isfinite(val) else _math.inf)
                if key == 'P' and which in ('irrev', 'equal') and val > prod + min(major, minor) + ctol * refmax:
                    return ('chempy.kinetics.integrated.%s (%s backend) = %r at t=%g exceeds what the minor reactant can supply, '
                            'prod + min([A]0, [B]0) = %r (kf=%g, major=%r, minor=%r)' % (name, be_name, val, t, prod + min(major, minor), kf, major, minor))
                if not abs(val - want[key]) <= ctol * refmax:
                    return ('chempy.kinetics.integrated.%s (%s backend) = %r at t=%g, kf=%g, kb=%g, major=%g, minor=%g, prod=%g; '
                            'exact %s = %r' % (name, be_name, val, t, kf, kb, major, minor, prod, key, want[key]))
        return None

    def _bimol_system(self, case):
        which = case['which']
        A, B = ('B', 'A') if case['swap'] else ('A', 'B')
        mk = lambda reac, prod, k: {'reac': reac, 'prod': prod, 'inact_reac': [], 'inact_prod': [], 'param': rat_json(F(k))}
        subs = [['A', [[1, 1]]], ['B', [[6, 1]]], ['P', [[1, 1], [6, 1]]]]
        rxns = [mk([['A', 1], ['B', 1]], [['P', 1]], case['kf']), mk([['P', 1]], [['A', 1], ['B', 1]], case['kb'])]
        c0d = OrderedDict([(A, case['major']), (B, case['minor']), ('P', case['prod'])])
        return subs, rxns, c0d, A, B

    def _oracle_history(self, case):
        from chempy import ReactionSystem, Substance
        from chempy.kinetics.ode import get_odesys
        base, rng = case['base'], random.Random(case.get('seed', 0))
        if base['kind'] == 'linear':
            subs, rxns0 = base['subs'], base['rxns']
            c0d = OrderedDict((k, v) for (k, _), v in zip(subs, base['c0']))
        else:
            base = dict(base, which='rev' if base['which'] in ('rev', 'equal_rev') else 'irrev_as_rev')
            subs, rxns0, c0d, A, B = self._bimol_system(base)
            if base['which'] == 'irrev_as_rev':
                rxns0 = rxns0[:1]
        comps = {k: OrderedDict((int(e), int(v)) for e, v in comp) for k, comp in subs}
        if case['source'] == 'from_string':
            rsys = ReactionSystem.from_string('\n'.join(rxn_text(r) for r in rxns0),
                                              substance_factory=lambda name: Substance(name, composition=comps[name]))
        else:
            substances = OrderedDict((k, Substance(k, composition=comps[k])) for k, _ in subs)
            rsys = ReactionSystem([kg.mk_reaction(dict(r, param=rat_json(F(float(_fr(r['param']))))), 'float') for r in rxns0], substances)
        for r, spec in zip(rsys.rxns, rxns0):
            if sorted(r.reac.items()) != sorted(map(tuple, spec['reac'])):
                return 'reactions of the system are not in the order of the text'
        for si, step in enumerate(case['steps']):
            cur = [dict(r, param=rat_json(F(float(_fr(r['param'])) * sc))) for r, sc in zip(rxns0, step['scale'])]
            for r, spec in zip(rsys.rxns, cur):                 # the edit: same objects, new constants
                r.param = float(_fr(spec['param']))
            for t in step['touch']:
                if t == 'rate_expr':
                    [r.rate_expr() for r in rsys.rxns]
                elif t == 'rates':
                    rsys.rates({k: 1.0 for k in rsys.substances})
                elif t == 'string':
                    rsys.string()
                elif t == 'get_odesys':
                    get_odesys(rsys)
            if step.get('new_c0'):
                c0d = OrderedDict((k, float('%.4g' % (10 ** rng.uniform(-3, 1)))) for k in c0d)
            ks = [float(_fr(r['param'])) for r in cur]
            sub = dict(base, atol=base['atol'], rtol=base['rtol'], units=None)
            if base['kind'] == 'linear':
                sub['tout'] = log_times(rng, 0.01 / max(ks), 3.0 / min(ks), 5)
            else:
                rate = ks[0] * max(c0d.values()) + (ks[1] if len(ks) > 1 else 0)
                sub['tout'] = log_times(rng, 0.003 / rate, 30 / rate, 5)
            r = self._integrate(sub, subs, cur, c0d, rsys=rsys)
            where = ' [history step %d: constants %r on the same objects]' % (si, ks)
            if isinstance(r, str):
                return r + where
            names, xout, yout, _, cb = r
            c0 = [c0d[k] for k in names]
            for t, row in zip(xout[1:], yout[1:]):
                if base['kind'] == 'linear':
                    ref = [float(v) for v in self._expm_ref(first_order_M(names, cur), c0, float(t))]
                else:
                    bc = dict(base, which='rev' if len(cur) > 1 else 'irrev', kf=ks[0], kb=ks[1] if len(ks) > 1 else 0.0,
                              major=c0d[A], minor=c0d[B], prod=c0d['P'])
                    w = self._bimol_exact(bc, float(t), A, B)
                    ref = [w[k] for k in names]
                refmax = max(abs(v) for v in ref)
                for i, k in enumerate(names):
                    f = self._accurate(sub, k, t, float(row[i]), ref[i], refmax)
                    if f:
                        return f + where
            f = self._admissible(sub, subs, names, yout, c0d) or self._euler_along(subs, cur, names, yout, cb)
            if f:
                return f + where
        return None

    REFUSALS = ('unbalanced_text', 'strict_nocomp', 'subst_unknown', 'time_reserved', 'lindep_empty', 'lindep_all', 'lindep_unknown',
                'lindep_unobtainable')

    def _oracle_refusal(self, case):
        """malformed requests must be REFUSED with ValueError (never answered): an unbalanced reaction given as text, the strict
        balance check without compositions (and then no callback), a substitution for a name that occurs nowhere, the reserved
        key 'time', and the four refusals of extra['linear_dependencies']"""
        from chempy import ReactionSystem, Substance
        from chempy.kinetics.ode import get_odesys
        from pyodesys.symbolic import PartiallySolvedSystem
        what = case['what']
        comps = {'A': {1: 2}, 'B': {1: 1}, 'C': {1: 1}}
        k1, k2 = case.get('k', [0.4, 0.05])
        fac = lambda n: Substance(n, composition=comps[n])
        good = "A -> 2 B; %r\nB -> C; %r" % (k1, k2)

        def expect(f, needle):
            try:
                r = f()
            except ValueError as e:
                return None if needle in str(e) else 'refusal %s: ValueError without %r: %s' % (what, needle, e)
            except Exception as e:
                return 'refusal %s: %s instead of ValueError: %s' % (what, type(e).__name__, e)
            return 'refusal %s: accepted and returned %r' % (what, r)
        if what == 'unbalanced_text':
            return expect(lambda: ReactionSystem.from_string("A -> %d B; %r" % (case.get('n', 1), k1), substance_factory=fac), 'Composition violation')
        if what == 'strict_nocomp':
            rs = ReactionSystem.from_string(good, substance_factory=lambda n: Substance(n, composition=None if n == 'C' else comps[n]))
            if rs.check_balance(strict=True) is not False:
                return 'check_balance(strict=True) accepts a system with a substance without composition'
            return expect(lambda: rs.check_balance(strict=True, throw=True), 'No composition')
        if what == 'time_reserved':
            return expect(lambda: get_odesys(ReactionSystem.from_string("time -> B; %r" % k1, substance_factory=Substance)), "'time' is reserved")
        rs = ReactionSystem.from_string(good, substance_factory=fac)
        if what == 'subst_unknown':
            return expect(lambda: get_odesys(rs, substitutions={'zz': 1.0}), 'does not appear')
        odesys, extra = get_odesys(rs)
        ld = extra['linear_dependencies']
        if what == 'lindep_empty':
            return expect(lambda: ld([]), 'No preferred')
        if what == 'lindep_all':
            return expect(lambda: ld(['A', 'B', 'C']), 'Cannot remove all')
        if what == 'lindep_unknown':
            return expect(lambda: ld(['A', 'nope']), 'Unknown substance key')
        if what == 'lindep_unobtainable':      # one invariant (H atoms) cannot eliminate two concentrations
            return expect(lambda: PartiallySolvedSystem(odesys, ld(['B', 'C'])), 'Failed to obtain analytic expression')
        return 'unknown refusal case'

    def _oracle_traj(self, case):
        subs, rxns = case['subs'], case['rxns']
        c0d = {k: v for (k, _), v in zip(subs, case['c0'])}
        r = self._integrate(case, subs, rxns, c0d)
        if isinstance(r, str):
            return None if r.startswith('refused: ') else r
        names, xout, yout, rsys, cb = r
        f = self._admissible(case, subs, names, yout, c0d, open_system=bool((case.get('opts') or {}).get('cstr')))
        if f:
            return f
        return self._euler_along(subs, rxns, names, yout, cb)

    def known_key(self, case, failure):
        return None


PROPERTY = C06()
