"""C20 — printed numbers and parameters denote the value they were given

Correspondence: exact STRING equality between the Lean model (Model/NumFmt.lean, exact on Q) and
  '%.Ng' % x, number_to_scientific_{latex,unicode,html}, _X_pow_10, _float_str_w_uncert, roman,
  Reaction.{string,unicode,latex,html}(with_param=True).
Floats travel as exact ratios (float.as_integer_ratio()); unit texts are taken from the real call (opaque).

Oracle (independent of the Lean model): own readers parse the real output back
  (significand x 10^exponent, LaTeX / unicode / HTML mark-up stripped here) and compare with the input
  on exact Fractions.
"""
from fractions import Fraction as F
import math, re
from lib.framework import Property
from .util import *

FMTS = ('latex', 'unicode', 'html')

# compound units as (attribute of chempy.units.default_units, exponent) lists
UNITS = [
    [['metre', 1], ['second', -1]],
    [['molar', -1], ['second', -1]],
    [['joule', 1], ['mol', -1], ['kelvin', -1]],
    [['kg', 1], ['metre', 2], ['second', -2]],
    [['per100eV', 1]],
    [['molal', 1]],
    [['dm', 3], ['mol', -1], ['s', -1]],
    [['cm', -1]],
    [['molar', -2], ['second', -1]],
    [['gram', 1], ['cm', -3]],
    [['metre', 2], ['second', -1], ['volt', -1]],
    [['kelvin', 1]],
]

RXNS = [{'reac': {'H+': 1, 'OH-': 1}, 'prod': {'H2O': 1}}, {'reac': {'H2O': 2}, 'prod': {'H2': 2, 'O2': 1}},
        {'reac': {'NH3': 1, 'H2O': 1}, 'prod': {'NH4+': 1, 'OH-': 1}}]

SPECIAL = [1, 5, 9.5, 9.9995, 9.9996, 99999.5, 0.00012345, 2.5, 0.5, 1e5, 123456, 999999.5, 1.0004e5, 1.00004,
           0.99995, 0.999995, 9.5e-5, 9.9996e-5, 1e-4, 1e-5, 0.0001234, 1.5, 3.5, 0.125, 0.375, 1e15, 1e16, 1e17,
           123456789012345678.0, 1.0000000000000002, 0.9999999999999999, 2.0 ** -1022, 9.999999999e9, 1e22, 1e23]


def fx(h):
    """case floats are stored as hex text (exact, JSON-safe)"""
    return float.fromhex(h)


def ratio(x):
    n, d = float(x).as_integer_ratio()
    return n if d == 1 else [n, d]


def ilog10(q):
    """floor(log10 q) for a positive Fraction, exact"""
    n, d = q.numerator, q.denominator
    e = len(str(n)) - len(str(d))
    while F(10) ** e > q:
        e -= 1
    while F(10) ** (e + 1) <= q:
        e += 1
    return e


def pow10(e):
    return F(10) ** e


def make_unit(spec):
    from chempy.units import default_units as u
    r = 1
    for nm, ex in spec:
        r = r * getattr(u, nm) ** ex
    return r


# ----------------------------------------------------------------------------------------------------------
# float operations of _float_str_w_uncert that the exact model does not mirror: log10, x*10**k, round.
LOG_MARGIN = F(1, 10 ** 9)       # relative distance to a power of ten (either side) below which log10 may differ
MAX_DIGITS = 13                  # digits of no_int for which the float products / '%f' are exact enough


def near_pow10(q):
    q = abs(q)
    e = ilog10(q)
    if q == pow10(e) and 0 <= e <= 22:
        return False             # exactly representable power of ten: math.log10 is exact there (checked at import of the tier)
    r = q / pow10(e)
    return r - 1 < LOG_MARGIN or 10 - r < 10 * LOG_MARGIN


def near_tie(q):
    """q = exact argument of round(); float evaluation has relative error of a few ulp"""
    q = abs(q)
    fl = q.numerator // q.denominator
    return abs(q - fl - F(1, 2)) <= max(F(1, 10 ** 9), q / 10 ** 14)


def uncert_modelled(x, xe, p):
    """is (x, xe, precision) inside the region where the exact model is expected to equal the float code?"""
    X, XE = F(x), F(xe)
    if X == 0 or XE == 0:
        return True               # ValueError on both sides
    if near_pow10(X) or near_pow10(XE):
        return False
    x_exp, xe_exp = ilog10(abs(X)), ilog10(abs(XE))
    un_exp = xe_exp - p + 1
    if -un_exp >= 309:
        return True               # OverflowError (mirrored by the model, reported as a defect)
    if x_exp - un_exp < 0:
        return True               # ValueError on both sides
    if x_exp - un_exp + 1 > MAX_DIGITS or p > MAX_DIGITS:
        return False
    if near_tie(XE / pow10(un_exp)) or near_tie(X / pow10(un_exp)):
        return False
    return True


# ----------------------------------------------------------------------------------------------------------
# independent readers (oracle side)
SUP = {'⁰': '0', '¹': '1', '²': '2', '³': '3', '⁴': '4', '⁵': '5', '⁶': '6', '⁷': '7', '⁸': '8', '⁹': '9', '⁻': '-', '⁺': '+'}
SIG = r'-?\d+(?:\.\d+)?(?:\(-?\d+\))?'
POW = {
    'plain': re.compile(r'^(?P<sig>' + SIG + r')e(?P<exp>[+-]?\d+)(?P<rest>.*)$', re.S),
    'latex': re.compile(r'^(?:(?P<sig>' + SIG + r')\\cdot )?10\^\{(?P<exp>-?\d+)\}(?P<rest>.*)$', re.S),
    'unicode': re.compile(r'^(?:(?P<sig>' + SIG + r')·)?10(?P<exp>[⁺⁻⁰¹²³⁴⁵⁶⁷⁸⁹]+)(?P<rest>.*)$', re.S),
    'html': re.compile(r'^(?:(?P<sig>' + SIG + r')&sdot;)?10<sup>(?P<exp>-?\d+)</sup>(?P<rest>.*)$', re.S),
}
NOPOW = re.compile(r'^(?P<sig>' + SIG + r')(?P<rest>.*)$', re.S)
UNC = re.compile(r'^(?P<nom>-?\d+(?:\.(?P<dec>\d+))?)(?:\((?P<unc>-?\d+)\))?$')


class Unreadable(Exception):
    pass


def read_sci(fmt, text):
    """-> (significand text | None, exponent int | None, rest)"""
    m = POW[fmt].match(text)
    if m:
        e = m.group('exp')
        if fmt == 'unicode':
            e = ''.join(SUP[c] for c in e)
        if not re.fullmatch(r'[+-]?\d+', e):
            raise Unreadable('exponent %r' % e)
        return m.group('sig'), int(e), m.group('rest')
    m = NOPOW.match(text)
    if m:
        return m.group('sig'), None, m.group('rest')
    raise Unreadable(text)


def sig_value(sig):
    """'3.14(3)' -> (Fraction nominal, decimals, uncertainty digits | None)"""
    m = UNC.match(sig)
    if not m:
        raise Unreadable(sig)
    return F(m.group('nom')), len(m.group('dec') or ''), (int(m.group('unc')) if m.group('unc') is not None else None)


def read_roman(s):
    val = {'I': 1, 'V': 5, 'X': 10, 'L': 50, 'C': 100, 'D': 500, 'M': 1000}
    tot = 0
    for i, ch in enumerate(s):
        v = val[ch]
        if i + 1 < len(s) and val[s[i + 1]] > v:
            tot -= v
        else:
            tot += v
    return tot


def check_number_text(fmt, text, x, p, suffix):
    """the property for a number printed without uncertainty; x: float, p: requested digits (>=1)"""
    X = F(x)
    try:
        sig, e, rest = read_sci(fmt, text)
    except Unreadable as ex:
        return 'cannot read %r back (%s)' % (text, ex)
    if rest != suffix:
        return 'unit part: %r is followed by %r, expected %r' % (text, rest, suffix)
    if sig is not None and '(' in sig:
        return 'unexpected uncertainty in %r' % text
    val = (F(sig) if sig is not None else F(1)) * (pow10(e) if e is not None else 1)
    if X == 0:
        return None if val == 0 else '%r does not denote 0' % text
    unit = pow10(ilog10(abs(X)) - p + 1)
    if abs(val - X) > unit / 2:
        return '%r denotes %s which differs from %r by more than half a unit of digit %d' % (text, float(val), x, p)
    if (val / unit).denominator != 1:
        return '%r shows more than %d significant digits of %r' % (text, p, x)
    if fmt != 'plain' and e is not None:
        if sig is None and val != pow10(e):
            return 'significand omitted in %r' % text
        if sig is not None and F(sig) == 1:
            return 'significand exactly 1 is printed in %r' % text
    return None


def check_uncert_text(fmt, text, x, xe, p, suffix, with_layout=True):
    """the property for value(uncertainty) notation; x, xe floats; p: digits of the uncertainty"""
    X, XE = F(x), F(xe)
    try:
        sig, e, rest = read_sci(fmt, text)
        if sig is None:
            return '%r: a value given with an uncertainty is printed without significand and uncertainty' % text
        nom, dec, unc = sig_value(sig)
    except Unreadable as ex:
        return 'cannot read %r back (%s)' % (text, ex)
    if rest != suffix:
        return 'unit part: %r is followed by %r, expected %r' % (text, rest, suffix)
    if unc is None:
        return 'no uncertainty in %r' % text
    E = e if e is not None else 0
    val = nom * pow10(E)
    uval = unc * pow10(E - dec)
    q = ilog10(abs(XE)) - p + 1                     # the uncertainty's last kept digit
    if abs(val - X) > pow10(q) / 2 or (val / pow10(q)).denominator != 1:
        return '%r: value %s is not %r rounded at 10^%d' % (text, float(val), x, q)
    if abs(uval - XE) > pow10(q) / 2 or (uval / pow10(q)).denominator != 1:
        return '%r: uncertainty %s is not %r rounded to %d digits' % (text, float(uval), xe, p)
    if with_layout:
        # shorter of the two layouts (exponent = decade of x as in the code; plain wins ties)
        xexp = ilog10(abs(X))
        n_int, u_int = int(val / pow10(q)), int(uval / pow10(q))

        def fixed(n, w):
            s = str(abs(n)).rjust(w + 1, '0')
            s = s if w == 0 else s[:-w] + '.' + s[-w:]
            return ('-' if n < 0 else '') + s
        l1 = len(fixed(n_int, xexp - q)) + len('(%d)e%d' % (u_int, xexp))
        l2 = len(fixed(n_int * 10 ** max(q, 0), max(0, -q))) + len('(%d)' % (u_int * 10 ** max(q, 0)))
        plain = POW['plain'].match(text) is None if fmt == 'plain' else e is None
        if plain and l2 > l1:
            return '%r: plain layout (%d chars) chosen although the exponent layout has %d' % (text, l2, l1)
        if not plain and l2 < l1:      # on a tie either is "the shorter" (the code prefers plain; tied by the correspondence)
            return '%r: exponent layout (%d chars) chosen although the plain layout has %d' % (text, l1, l2)
    return None


# ----------------------------------------------------------------------------------------------------------
class C20(Property):
    pid = 'C20'
    title = ('scientific formatting (plain/LaTeX/unicode/HTML) denotes the value to the requested significant digits, significand '
             'omitted iff exactly 1, unit after it; value(uncertainty) notation denotes value and uncertainty rounded at the '
             "uncertainty's last kept digit in the shorter layout; roman numerals denote their integer; a reaction printed with "
             'its parameter shows magnitude and unit')
    props_module = 'ChemModel.Props.C20'
    build_modules = ('ChemModel.Model.NumFmt', 'ChemModel.Basic.Proto')
    driver = 'ChemModel/Driver/C20.lean'
    n_quick, n_thorough = 3000, 60000
    float_tol = 0.0
    rule = ('floats: random bit patterns, k-digit decimals x 10^(-300..300), carry / significand-1 / tie specials x 10^k, exact powers of '
            'ten, both signs; precisions 0..17 (mostly 1..10); 12 compound units; uncertainties 1e-8..0.5 relative with 1..6 digits; '
            'roman 0..5000 and large; reactions with quantity/float/int/str/None parameters on the four printers. '
            'A case is non-trivial when it is a distinct JSON value.')
    assumptions = (
        'CPython %.Ng is the exact round-half-even specification of Model/NumFmt.lean (validated by the fmt_g correspondence on every run)',
        'float log10 / x*10**k / round inside _float_str_w_uncert are not modelled: inputs within 1e-9 (relative) of a power of ten, '
        'with round() arguments within max(1e-9, q*1e-14) of a tie, or needing more than 13 digits are not generated',
        'unit texts (latex_of_unit, unicode_of_unit, html_of_unit, dimensionality printers) and the reaction text without parameter are taken '
        'from the real call and passed to the model as opaque strings',
        'roman: non-negative ints only; -0.0, inf, nan are not sent',
    )
    anchors = (('chempy/printing/numbers.py', 'roman'), ('chempy/printing/numbers.py', '_float_str_w_uncert'),
               ('chempy/printing/numbers.py', '_number_to_X'), ('chempy/printing/numbers.py', '_latex_pow_10'),
               ('chempy/printing/numbers.py', '_unicode_pow_10'), ('chempy/printing/numbers.py', '_html_pow_10'),
               ('chempy/printing/numbers.py', 'number_to_scientific_latex'), ('chempy/printing/numbers.py', 'number_to_scientific_unicode'),
               ('chempy/printing/numbers.py', 'number_to_scientific_html'),
               ('chempy/printing/string.py', 'StrPrinter._Reaction_param_str'), ('chempy/printing/string.py', 'StrPrinter._print_Reaction'),
               ('chempy/printing/printer.py', 'Printer'))

    # ---- generation ---------------------------------------------------------------------------
    def _float(self, rng):
        r = rng.random()
        if r < 0.25:
            while True:
                import struct
                x = struct.unpack('d', struct.pack('Q', rng.getrandbits(64)))[0]
                if math.isfinite(x) and 1e-300 <= abs(x) <= 1e300:
                    return x
        if r < 0.55:
            x = round(rng.uniform(1, 10), rng.randint(0, 9)) * 10.0 ** rng.randint(-300, 299)
        elif r < 0.8:
            x = float(rng.choice(SPECIAL)) * 10.0 ** rng.choice([0, 0, 0, rng.randint(-8, 8), rng.randint(-290, 280)])
        elif r < 0.9:
            x = float('1e%d' % rng.randint(-300, 300))
        else:
            k = rng.randint(1, 10 ** rng.randint(1, 9))          # exact decimal ties  (k + 1/2) * 2^j
            x = (k + 0.5) * 2.0 ** rng.choice([0, 0, -1, -2, -3, 1, 2])
        if x == 0 or not math.isfinite(x):
            x = 1.0
        return -x if rng.random() < 0.35 else x

    def _prec(self, rng):
        r = rng.random()
        if r < 0.85:
            return rng.randint(1, 10)
        if r < 0.9:
            return 0
        return rng.randint(11, 17)

    def _uncert(self, rng):
        """(x, xe, p) inside the modelled region"""
        for _ in range(200):
            x = self._float(rng)
            p = rng.choice([1, 1, 2, 2, 2, 3, 4, 5, 6])
            r = rng.random()
            if r < 0.7:
                rel = 10.0 ** rng.uniform(-8, math.log10(0.5))
                xe = abs(x) * rel
                if rng.random() < 0.5:
                    xe = float('%.*g' % (rng.randint(1, 4), xe))
            elif r < 0.95:
                xe = float(rng.choice([1, 2, 3, 5, 9.6, 9.96, 0.95, 2.9, 3.49, 1.5])) * 10.0 ** (math.floor(math.log10(abs(x))) - rng.randint(1, 7))
            else:
                xe = abs(self._float(rng))
            if not (math.isfinite(xe) and xe != 0):
                continue
            if -(ilog10(abs(F(xe))) - p + 1) >= 309:
                continue                                   # OverflowError region: kept out of the random stream (see notes, corpus)
            if uncert_modelled(x, xe, p):
                return x, xe, p
        return 3.1416, 0.029, 1

    def generate(self, rng, n, tier):
        cases = []
        for v in list(range(0, 60)) + [3999, 4000, 1994, 2024, 3888, 944, 499, 999, 1444]:
            cases.append({'op': 'roman', 'n': v})
        for sig in ['1', '1.0', '-1', '1.00', '2.5', '1.0(3)', '10', '01', '1.']:
            for man in ['+05', '-07', '12', '0', '-00', '+100', '-300']:
                cases.append({'op': 'pow_ten', 'fmt': rng.choice(FMTS), 'significand': sig, 'mantissa': man})
        for x in (1e5, 1.0004e5, 9.9996, -1e5, 1e-5, 1e13, 99999.5, 100000.5, 0.000099996, 1e4, 1e-4, 9.9995e-5):
            for p in (1, 3, 4, 5, 6):
                cases.append({'op': 'fmt_g', 'p': p, 'xf': float(x).hex()})
                cases.append({'op': 'number_to_x', 'fmt': FMTS[(p + int(abs(x))) % 3], 'p': p, 'xf': float(x).hex(), 'unit': None})
        # uncertainties whose leading digits round up to a power of ten (9.6 -> 10, 9.96 -> 10.0, 99.95 -> 100.0 ...)
        for lead, p in ((9.6, 1), (9.96, 2), (9.996, 3), (9.51, 1), (9.951, 2), (99.6, 2), (9.9996, 4), (9.7, 1)):
            for k in (-7, -3, 0, 2, 6, 11):
                x = float('%r' % (rng.choice([1.2345678, 3.14159, 9.87654, 5.5, 1.0, 2.5]) * 10.0 ** (k + rng.randint(2, 5))))
                xe = float('%re%d' % (lead, k))
                if uncert_modelled(x, xe, p):
                    cases.append({'op': 'float_str_w_uncert', 'xf': x.hex(), 'xef': xe.hex(), 'p': p})
                    cases.append({'op': 'number_to_x_uncert', 'fmt': rng.choice(FMTS), 'p': p, 'xf': (-x if rng.random() < 0.3 else x).hex(),
                                  'xef': xe.hex(), 'unit': rng.choice([None, rng.choice(UNITS)])})
        # nominal values that are exact powers of ten (or round to one) printed WITH an uncertainty, every renderer, with/without unit
        for k in (0, 1, 3, 5, 6, 9, 12, 15, 18, 22):
            for j, lead, p in ((2, 3.0, 1), (3, 2.9, 2), (4, 1.5, 2), (5, 4.2, 1), (3, 9.6, 1)):
                x, xe = float('1e%d' % k), float('%re%d' % (lead, k - j))
                for xx in (x, -x, float('%r' % (x * (1 + 10.0 ** -(j + 3))))):
                    if uncert_modelled(xx, xe, p):
                        cases.append({'op': 'float_str_w_uncert', 'xf': xx.hex(), 'xef': xe.hex(), 'p': p})
                        for fmt in FMTS:
                            cases.append({'op': 'number_to_x_uncert', 'fmt': fmt, 'p': p, 'xf': xx.hex(), 'xef': xe.hex(),
                                          'unit': rng.choice([None, rng.choice(UNITS)])})
        while len(cases) < n:
            r = rng.random()
            if r < 0.22:
                cases.append({'op': 'fmt_g', 'p': self._prec(rng), 'xf': self._float(rng).hex()})
            elif r < 0.55:
                cases.append({'op': 'number_to_x', 'fmt': rng.choice(FMTS), 'p': rng.choice([None, self._prec(rng), self._prec(rng)]),
                              'xf': self._float(rng).hex(), 'unit': rng.choice([None, rng.choice(UNITS), rng.choice(UNITS)])})
            elif r < 0.68:
                x, xe, p = self._uncert(rng)
                cases.append({'op': 'float_str_w_uncert', 'xf': x.hex(), 'xef': xe.hex(), 'p': p})
            elif r < 0.8:
                x, xe, p = self._uncert(rng)
                dflt = rng.random() < 0.3 and uncert_modelled(x, xe, 2)
                cases.append({'op': 'number_to_x_uncert', 'fmt': rng.choice(FMTS), 'p': None if dflt else p, 'xf': x.hex(), 'xef': xe.hex(),
                              'unit': rng.choice([None, rng.choice(UNITS)])})
            elif r < 0.87:
                cases.append({'op': 'roman', 'n': rng.choice([rng.randint(0, 5000), rng.randint(1, 3999), rng.randint(0, 10 ** rng.randint(1, 5))])})
            elif r < 0.97:
                kind = rng.choice(['quantity', 'quantity', 'quantity', 'float', 'float', 'int', 'str', 'none'])
                c = {'op': 'reaction_line', 'printer': rng.choice(['str', 'unicode', 'latex', 'html']), 'kind': kind,
                     'rxn': rng.choice(RXNS),
                     'name': rng.choice([None, None, 'r%d' % rng.randint(1, 99)])}
                if kind in ('quantity', 'float'):
                    c['xf'] = abs(self._float(rng)).hex() if rng.random() < 0.7 else self._float(rng).hex()
                if kind == 'quantity':
                    c['unit'] = rng.choice(UNITS)
                if kind == 'int':
                    c['value'] = rng.randint(-5, 10 ** 6)
                if kind == 'str':
                    c['value'] = rng.choice(['k1', 'abc', '1e5', 'Arrhenius'])
                cases.append(c)
            else:   # malformed / error stream
                m = rng.random()
                if m < 0.3:
                    cases.append({'op': 'float_str_w_uncert', 'xf': (0.0).hex(), 'xef': (1.0).hex(), 'p': 2})
                elif m < 0.5:
                    cases.append({'op': 'float_str_w_uncert', 'xf': self._float(rng).hex(), 'xef': (0.0).hex(), 'p': 1})
                elif m < 0.8:      # uncertainty far larger than the value: "%.-Nf" -> ValueError
                    x = float('%.3g' % rng.uniform(1, 9.5))
                    cases.append({'op': 'float_str_w_uncert', 'xf': x.hex(), 'xef': (x * 10.0 ** rng.randint(2, 6) * 1.37).hex(), 'p': rng.randint(1, 2)})
                else:
                    cases.append({'op': 'pow_ten', 'fmt': rng.choice(FMTS), 'significand': rng.choice(['1', '2.5']), 'mantissa': rng.choice(['', 'x', '+', '1e', '--1'])})
        return cases

    # ---- model side ---------------------------------------------------------------------------
    def _unit_text(self, fmt, unit):
        from chempy import units as cu
        return {'latex': cu.latex_of_unit, 'unicode': cu.unicode_of_unit, 'html': cu.html_of_unit}[fmt](unit)

    def _rxn(self, c):
        from chempy import Reaction, Substance
        reac, prod = c['rxn']['reac'], c['rxn']['prod']
        kind = c['kind']
        if kind == 'quantity':
            param = fx(c['xf']) * make_unit(c['unit'])
        elif kind == 'float':
            param = fx(c['xf'])
        elif kind in ('int', 'str'):
            param = c['value']
        else:
            param = None
        subst = {k: Substance.from_formula(k) for k in list(reac) + list(prod)}
        return Reaction(reac, prod, param, name=c.get('name'), checks=()), subst

    def _print_rxn(self, c, rxn, subst, **kw):
        meth = {'str': 'string', 'unicode': 'unicode', 'latex': 'latex', 'html': 'html'}[c['printer']]
        return getattr(rxn, meth)(subst, **kw)

    def model_case(self, c):
        op = c['op']
        if op in ('roman', 'pow_ten'):
            return c
        if op == 'fmt_g':
            return dict(c, x=ratio(fx(c['xf'])))
        if op in ('number_to_x', 'number_to_x_uncert'):
            from chempy.units import to_unitless
            x = fx(c['xf'])
            m = dict(c)
            if c['unit'] is None:
                m['x'] = ratio(x)
                if 'xef' in c:
                    m['xe'] = ratio(fx(c['xef']))
            else:
                u = make_unit(c['unit'])
                m['x'] = ratio(float(to_unitless(x * u, u)))
                if 'xef' in c:
                    m['xe'] = ratio(float(to_unitless(fx(c['xef']) * u, u)))
                m['unit'] = self._unit_text(c['fmt'], u)
                m['unit_spec'] = c['unit']
            return m
        if op == 'float_str_w_uncert':
            return dict(c, x=ratio(fx(c['xf'])), xe=ratio(fx(c['xef'])))
        if op == 'reaction_line':
            rxn, subst = self._rxn(c)
            m = dict(c)
            m['rxn_spec'] = c['rxn']
            m['rxn'] = self._print_rxn(c, rxn, subst, with_param=False, with_name=False)
            kind = c['kind']
            if kind == 'quantity':
                from chempy.units import _latex_from_dimensionality
                dim = rxn.param.dimensionality
                ut = {'str': str, 'html': str, 'unicode': lambda d: d.unicode, 'latex': _latex_from_dimensionality}[c['printer']](dim)
                m['param'] = {'kind': 'quantity', 'mag': ratio(float(rxn.param.magnitude)), 'unit': ut}
            elif kind == 'float':
                m['param'] = {'kind': 'float', 'x': ratio(rxn.param)}
            elif kind in ('int', 'str'):
                m['param'] = {'kind': 'other', 'text': str(rxn.param)}
            else:
                m['param'] = None
            return m
        return c

    # ---- real code ----------------------------------------------------------------------------
    def impl(self, m):
        from chempy.printing import numbers as N
        op = m['op']
        try:
            if op == 'fmt_g':
                return ('%%.%dg' % m['p']) % fx(m['xf'])
            if op in ('number_to_x', 'number_to_x_uncert'):
                f = getattr(N, 'number_to_scientific_' + m['fmt'])
                x = fx(m['xf'])
                xe = fx(m['xef']) if 'xef' in m else None
                if m.get('unit_spec') is not None:
                    u = make_unit(m['unit_spec'])
                    x = x * u
                    xe = xe * u if xe is not None else None
                return f(x, xe, None, m['p'])
            if op == 'float_str_w_uncert':
                return N._float_str_w_uncert(fx(m['xf']), fx(m['xef']), m['p'])
            if op == 'roman':
                return N.roman(m['n'])
            if op == 'pow_ten':
                return getattr(N, '_%s_pow_10' % m['fmt'])(m['significand'], m['mantissa'])
            if op == 'reaction_line':
                c = dict(m, rxn=m['rxn_spec'])
                rxn, subst = self._rxn(c)
                return self._print_rxn(c, rxn, subst, with_param=True, with_name=True)
        except Exception as e:
            return exc_name(e)
        return '!unknown-op'

    def same(self, m, io, mo):
        return io == mo

    # ---- the property on the real code ---------------------------------------------------------
    def oracle(self, c):
        from chempy.printing import numbers as N
        op = c['op']
        if op == 'roman':
            n = c['n']
            s = N.roman(n)
            if any(ch not in 'MDCLXVI' for ch in s):
                return 'roman(%d) = %r has a non-roman character' % (n, s)
            if read_roman(s) != n:
                return 'roman(%d) = %r reads back as %d' % (n, s, read_roman(s))
            return None
        if op == 'fmt_g':
            x, p = fx(c['xf']), max(c['p'], 1)
            return check_number_text('plain', ('%%.%dg' % c['p']) % x, x, p, '')
        if op == 'pow_ten':
            try:
                want_e = int(c['mantissa'])
            except ValueError:
                return None
            if not re.fullmatch(SIG, c['significand']):
                return None            # not a numeral the property speaks about: correspondence only
            try:
                text = getattr(N, '_%s_pow_10' % c['fmt'])(c['significand'], c['mantissa'])
                sig, e, rest = read_sci(c['fmt'], text)
            except Exception as ex:
                return '_%s_pow_10(%r, %r): %s' % (c['fmt'], c['significand'], c['mantissa'], exc_name(ex))
            if e != want_e or rest != '':
                return '%r does not show the exponent %d' % (text, want_e)
            nom, _dec, unc = sig_value(c['significand'])
            if sig is None:
                if unc is not None or nom != 1:
                    return 'significand %r omitted in %r although it is not exactly 1' % (c['significand'], text)
            elif sig != c['significand']:
                return '%r does not show the significand %r' % (text, c['significand'])
            elif c['significand'] == '1':
                return 'significand exactly 1 is printed in %r' % text
            return None
        if op in ('number_to_x', 'number_to_x_uncert'):
            from chempy.units import to_unitless
            f = getattr(N, 'number_to_scientific_' + c['fmt'])
            x = fx(c['xf'])
            xe = fx(c['xef']) if 'xef' in c else None
            suffix = ''
            num, unc = x, xe
            if xe is not None and ilog10(abs(F(x))) < ilog10(abs(F(xe))) - (2 if c['p'] is None else c['p']) + 1:
                return None            # value below the uncertainty's last digit: outside the property (code raises ValueError)
            if c['unit'] is not None:
                u = make_unit(c['unit'])
                num = x * u
                unc = xe * u if xe is not None else None
                suffix = ('\\,' if c['fmt'] == 'latex' else ' ') + self._unit_text(c['fmt'], u)
            try:
                text = f(num, unc, None, c['p'])
            except Exception as ex:
                return 'number_to_scientific_%s(%r, %r, fmt=%r) raised %s' % (c['fmt'], x, xe, c['p'], exc_name(ex))
            if xe is None:
                p = 5 if c['p'] is None else max(c['p'], 1)
                return check_number_text(c['fmt'], text, x, p, suffix)
            return check_uncert_text(c['fmt'], text, x, xe, 2 if c['p'] is None else c['p'], suffix)
        if op == 'float_str_w_uncert':
            x, xe, p = fx(c['xf']), fx(c['xef']), c['p']
            if x == 0 or xe == 0:
                return None
            if ilog10(abs(F(x))) < ilog10(abs(F(xe))) - p + 1:
                return None            # value below the uncertainty's last digit: outside the property (code raises ValueError)
            try:
                text = N._float_str_w_uncert(x, xe, p)
            except Exception as ex:
                return '_float_str_w_uncert(%r, %r, %d) raised %s' % (x, xe, p, exc_name(ex))
            return check_uncert_text('plain', text, x, xe, p, '')
        if op == 'reaction_line':
            rxn, subst = self._rxn(c)
            sep = '&#59; ' if c['printer'] == 'html' else '; '
            base = self._print_rxn(c, rxn, subst, with_param=False, with_name=False)
            text = self._print_rxn(c, rxn, subst, with_param=True, with_name=True)
            if not text.startswith(base):
                return '%r does not start with the reaction %r' % (text, base)
            rest = text[len(base):]
            if c.get('name') is not None:
                if not rest.endswith(sep + c['name']):
                    return '%r does not end with the name' % text
                rest = rest[:-len(sep + c['name'])]
            kind = c['kind']
            if kind == 'none':
                return None if rest == '' else 'unexpected text %r for a reaction without parameter' % rest
            if not rest.startswith(sep):
                return 'parameter separator missing in %r' % text
            rest = rest[len(sep):]
            if kind in ('int', 'str'):
                return None if rest == str(c['value']) else 'parameter %r printed as %r' % (c['value'], rest)
            fmt = {'str': 'plain', 'unicode': 'unicode', 'latex': 'latex', 'html': 'html'}[c['printer']]
            p = 3 if c['printer'] == 'str' else 5
            suffix = ''
            if kind == 'quantity':
                from chempy.units import _latex_from_dimensionality
                dim = rxn.param.dimensionality
                suffix = ' ' + {'str': str, 'html': str, 'unicode': lambda d: d.unicode, 'latex': _latex_from_dimensionality}[c['printer']](dim)
            return check_number_text(fmt, rest, fx(c['xf']), p, suffix)
        return None

    def classify(self, c):
        op = c['op']
        if op in ('fmt_g', 'number_to_x'):
            x = fx(c['xf'])
            e = math.floor(math.log10(abs(x)))
            dec = 'e<-4' if e < -4 else ('e>=16' if e >= 16 else 'mid')
            return '%s:%s:%s%s' % (op, c.get('fmt', 'plain'), dec, ':unit' if c.get('unit') else '')
        if op == 'number_to_x_uncert':
            return '%s:%s%s' % (op, c['fmt'], ':unit' if c.get('unit') else '')
        if op == 'reaction_line':
            return 'reaction_line:%s:%s' % (c['printer'], c['kind'])
        if op == 'roman':
            return 'roman:' + ('1..3999' if 1 <= c['n'] <= 3999 else 'outside')
        return op

    def known_key(self, c, failure):
        """the one recorded defect: OverflowError of _float_str_w_uncert when -un_exp >= 309 (xe * 10**309: int too large for float)"""
        if c.get('op') not in ('float_str_w_uncert', 'number_to_x_uncert') or 'xef' not in c:
            return None
        if not str(failure).endswith('raised OverflowError'):
            return None
        xe = F(fx(c['xef']))
        if xe == 0:
            return None
        p = c.get('p')
        p = 2 if p is None else p
        un_exp = ilog10(abs(xe)) - p + 1
        return 'float_str_w_uncert-overflow' if -un_exp >= 309 else None


PROPERTY = C20()
