"""C20 — printed numbers and parameters denote the value they were given

Correspondence: exact STRING equality between the Lean model (Model/NumFmt.lean, exact on Q) and
  '%.Ng' % x, number_to_scientific_{latex,unicode,html}, _X_pow_10, _float_str_w_uncert, roman,
  Reaction.{string,unicode,latex,html}(with_param=True).
Floats travel as exact ratios (float.as_integer_ratio()); unit texts are taken from the real call (opaque).

Oracle (independent of the Lean model): own readers parse the real output back
  (significand x 10^exponent, LaTeX / unicode / HTML mark-up stripped here) and compare with the input
  on exact Fractions.
"""
from fractions import Fraction as F
import json, math, re, struct
from lib.framework import Property
from .util import *

FMTS = ('latex', 'unicode', 'html')

# compound units as (attribute of chempy.units.default_units, exponent) lists
UNITS = [
    [['metre', 1], ['second', -1]],
    [['molar', -1], ['second', -1]],
    [['joule', 1], ['mol', -1], ['kelvin', -1]],
    [['kg', 1], ['metre', 2], ['second', -2]],
    [['per100eV', 1]],
    [['molal', 1]],
    [['dm', 3], ['mol', -1], ['s', -1]],
    [['cm', -1]],
    [['molar', -2], ['second', -1]],
    [['gram', 1], ['cm', -3]],
    [['metre', 2], ['second', -1], ['volt', -1]],
    [['kelvin', 1]],
    # compound units that are dimensionally a pure ratio but carry a scale factor (the unit must still be printed)
    [['gram', 1], ['kg', -1]], [['cm', 1], ['metre', -1]], [['mM', 1], ['molar', -1]], [['cm', 3], ['dm', -3]], [['uM', 1], ['mM', -1]],
]

# (own unit, requested unit, requested-per-own as an exact fraction); None = no `unit=` argument
CONVERSIONS = [
    ([['metre', 1]], None, F(1)), ([['metre', 1]], [['metre', 1]], F(1)),
    ([['metre', 1]], [['cm', 1]], F(100)), ([['metre', 1]], [['kilometre', 1]], F(1, 1000)), ([['metre', 1]], [['dm', 1]], F(10)),
    ([['metre', 1], ['second', -1]], [['cm', 1], ['second', -1]], F(100)),
    ([['metre', 1], ['second', -1]], [['kilometre', 1], ['hour', -1]], F(36, 10)),
    ([['kg', 1]], [['gram', 1]], F(1000)), ([['gram', 1], ['cm', -3]], [['kg', 1], ['metre', -3]], F(1000)),
    ([['molar', 1]], [['mol', 1], ['metre', -3]], F(1000)), ([['second', 1]], [['hour', 1]], F(1, 3600)),
    ([['molar', -1], ['second', -1]], None, F(1)), ([['gram', 1], ['kg', -1]], None, F(1)),
    ([['cm', 1], ['metre', -1]], [['metre', 1], ['kilometre', -1]], F(10)), ([['mM', 1], ['molar', -1]], [['uM', 1], ['molar', -1]], F(1000)), ([['joule', 1], ['mol', -1]], [['kilojoule', 1], ['mol', -1]], F(1, 1000)),
]

CONV_SCALE = {json.dumps([own, to]): sc for own, to, sc in CONVERSIONS if to is not None}

# callable `fmt`: name -> function (value[, uncertainty]) -> text.  Well-formed ones return `[-]d.ddd[e[+-]dd]`, the others are the malformed stream.
CALLBACKS = {
    'e3': lambda x: '%.3e' % x, 'e1': lambda x: '%.1e' % x, 'e0': lambda x: '%.0e' % x, 'f2': lambda x: '%.2f' % x,
    'g7': lambda x: '%.7g' % x, 'repr': lambda x: repr(float(x)), 'E2': lambda x: '%.2E' % x,
    'two_e': lambda x: '%.2e' % x + 'e1', 'bad_exp': lambda x: '%.2fex' % x, 'empty_exp': lambda x: '%.1fe' % x,
    'dot_exp': lambda x: '%.2e' % x + '.5',
}
CALLBACKS_UNC = {
    'paren_e': lambda x, u: '%.3f(%d)e4' % (x, round(abs(u) * 1000) % 100), 'plain2': lambda x, u: '%.2f(%.2f)' % (x, u),
    'e_pm': lambda x, u: '%.3e' % x, 'two_e': lambda x, u: '%.2e(%.1e)' % (x, u), 'ignore_u': lambda x, u: '%.4g' % x,
}
CB_NUM = re.compile(r'^(?P<sig>-?\d+(?:\.\d+)?(?:\(-?\d+\))?)(?:e(?P<exp>[+-]?\d+))?$')

TABLE_KEYS = ['H2O', 'H+', 'OH-', 'Na+', 'Cl-', 'Fe+3', 'NH4+', 'SO4-2', 'H2', 'O2', 'CO2', 'NH3']
CONC_UNITS = [[['molar', 1]], [['mM', 1]], [['uM', 1]], [['mol', 1], ['metre', -3]], [['mol', 1], ['dm', -3]], [['molal', 1]],
              [['mol', 1], ['kg', -1]], [['gram', 1], ['dm', -3]]]
KEYED = ('dict', 'odict', 'qdict')
POSITIONAL = ('list', 'tuple', 'ndarray')
ROW_RE = re.compile(r'<tr><td>(.*?)</td>\n<td>(.*?)</td></tr>', re.S)

RXNS = [{'reac': {'H+': 1, 'OH-': 1}, 'prod': {'H2O': 1}}, {'reac': {'H2O': 2}, 'prod': {'H2': 2, 'O2': 1}},
        {'reac': {'NH3': 1, 'H2O': 1}, 'prod': {'NH4+': 1, 'OH-': 1}}]

SPECIAL = [1, 5, 9.5, 9.9995, 9.9996, 99999.5, 0.00012345, 2.5, 0.5, 1e5, 123456, 999999.5, 1.0004e5, 1.00004,
           0.99995, 0.999995, 9.5e-5, 9.9996e-5, 1e-4, 1e-5, 0.0001234, 1.5, 3.5, 0.125, 0.375, 1e15, 1e16, 1e17,
           123456789012345678.0, 1.0000000000000002, 0.9999999999999999, 2.0 ** -1022, 9.999999999e9, 1e22, 1e23]


def fx(h):
    """case floats are stored as hex text (exact, JSON-safe)"""
    return float.fromhex(h)


def bits(x):
    return struct.unpack('Q', struct.pack('d', float(x)))[0]


def ratio(x):
    n, d = float(x).as_integer_ratio()
    return n if d == 1 else [n, d]


def ilog10(q):
    """floor(log10 q) for a positive Fraction, exact"""
    n, d = q.numerator, q.denominator
    e = len(str(n)) - len(str(d))
    while F(10) ** e > q:
        e -= 1
    while F(10) ** (e + 1) <= q:
        e += 1
    return e


def pow10(e):
    return F(10) ** e


def make_unit(spec):
    from chempy.units import default_units as u
    r = 1
    for nm, ex in spec:
        r = r * getattr(u, nm) ** ex
    return r


# ----------------------------------------------------------------------------------------------------------
# float operations of _float_str_w_uncert that the exact model does not mirror: log10, x*10**k, round.
LOG_MARGIN = F(1, 10 ** 9)       # relative distance to a power of ten (either side) below which log10 may differ
MAX_DIGITS = 13                  # digits of no_int for which the float products / '%f' are exact enough


def near_pow10(q):
    q = abs(q)
    e = ilog10(q)
    if q == pow10(e) and 0 <= e <= 22:
        return False             # exactly representable power of ten: math.log10 is exact there (checked at import of the tier)
    r = q / pow10(e)
    return r - 1 < LOG_MARGIN or 10 - r < 10 * LOG_MARGIN


def near_tie(q):
    """q = exact argument of round(); float evaluation has relative error of a few ulp"""
    q = abs(q)
    fl = q.numerator // q.denominator
    return abs(q - fl - F(1, 2)) <= max(F(1, 10 ** 9), q / 10 ** 14)


def uncert_modelled(x, xe, p):
    """is (x, xe, precision) inside the region where the exact model is expected to equal the float code?"""
    X, XE = F(x), F(xe)
    if X == 0 or XE == 0:
        return True               # ValueError on both sides
    if near_pow10(X) or near_pow10(XE):
        return False
    x_exp, xe_exp = ilog10(abs(X)), ilog10(abs(XE))
    un_exp = xe_exp - p + 1
    if -un_exp >= 309:
        return True               # OverflowError (mirrored by the model, reported as a defect)
    if x_exp - un_exp < 0:
        return True               # ValueError on both sides
    if x_exp - un_exp + 1 > MAX_DIGITS or p > MAX_DIGITS:
        return False
    if near_tie(XE / pow10(un_exp)) or near_tie(X / pow10(un_exp)):
        return False
    return True


# ----------------------------------------------------------------------------------------------------------
# independent readers (oracle side)
SUP = {'⁰': '0', '¹': '1', '²': '2', '³': '3', '⁴': '4', '⁵': '5', '⁶': '6', '⁷': '7', '⁸': '8', '⁹': '9', '⁻': '-', '⁺': '+'}
SIG = r'-?\d+(?:\.\d+)?(?:\(-?\d+\))?'
POW = {
    'plain': re.compile(r'^(?P<sig>' + SIG + r')e(?P<exp>[+-]?\d+)(?P<rest>.*)$', re.S),
    'latex': re.compile(r'^(?:(?P<sig>' + SIG + r')\\cdot )?10\^\{(?P<exp>-?\d+)\}(?P<rest>.*)$', re.S),
    'unicode': re.compile(r'^(?:(?P<sig>' + SIG + r')·)?10(?P<exp>[⁺⁻⁰¹²³⁴⁵⁶⁷⁸⁹]+)(?P<rest>.*)$', re.S),
    'html': re.compile(r'^(?:(?P<sig>' + SIG + r')&sdot;)?10<sup>(?P<exp>-?\d+)</sup>(?P<rest>.*)$', re.S),
}
NOPOW = re.compile(r'^(?P<sig>' + SIG + r')(?P<rest>.*)$', re.S)
UNC = re.compile(r'^(?P<nom>-?\d+(?:\.(?P<dec>\d+))?)(?:\((?P<unc>-?\d+)\))?$')


class Unreadable(Exception):
    pass


def read_sci(fmt, text):
    """-> (significand text | None, exponent int | None, rest)"""
    m = POW[fmt].match(text)
    if m:
        e = m.group('exp')
        if fmt == 'unicode':
            e = ''.join(SUP[c] for c in e)
        if not re.fullmatch(r'[+-]?\d+', e):
            raise Unreadable('exponent %r' % e)
        return m.group('sig'), int(e), m.group('rest')
    m = NOPOW.match(text)
    if m:
        return m.group('sig'), None, m.group('rest')
    raise Unreadable(text)


def sig_value(sig):
    """'3.14(3)' -> (Fraction nominal, decimals, uncertainty digits | None)"""
    m = UNC.match(sig)
    if not m:
        raise Unreadable(sig)
    return F(m.group('nom')), len(m.group('dec') or ''), (int(m.group('unc')) if m.group('unc') is not None else None)


def read_roman(s):
    val = {'I': 1, 'V': 5, 'X': 10, 'L': 50, 'C': 100, 'D': 500, 'M': 1000}
    tot = 0
    for i, ch in enumerate(s):
        v = val[ch]
        if i + 1 < len(s) and val[s[i + 1]] > v:
            tot -= v
        else:
            tot += v
    return tot


def check_number_text(fmt, text, x, p, suffix):
    """the property for a number printed without uncertainty; x: float, p: requested digits (>=1)"""
    X = F(x)
    try:
        sig, e, rest = read_sci(fmt, text)
    except Unreadable as ex:
        return 'cannot read %r back (%s)' % (text, ex)
    if rest != suffix:
        return 'unit part: %r is followed by %r, expected %r' % (text, rest, suffix)
    if sig is not None and '(' in sig:
        return 'unexpected uncertainty in %r' % text
    val = (F(sig) if sig is not None else F(1)) * (pow10(e) if e is not None else 1)
    if X == 0:
        return None if val == 0 else '%r does not denote 0' % text
    unit = pow10(ilog10(abs(X)) - p + 1)
    if abs(val - X) > unit / 2:
        return '%r denotes %s which differs from %r by more than half a unit of digit %d' % (text, float(val), x, p)
    if (val / unit).denominator != 1:
        return '%r shows more than %d significant digits of %r' % (text, p, x)
    if fmt != 'plain' and e is not None:
        if sig is None and val != pow10(e):
            return 'significand omitted in %r' % text
        if sig is not None and F(sig) == 1:
            return 'significand exactly 1 is printed in %r' % text
    return None


SLACK = F(1, 2 ** 50)       # 4 ulp of a double, relative: pow (<= 1 ulp) + product (1/2 ulp) + float(int)*pow before '%f' (<= 2 ulp)
SLACK_UNIT = F(1, 2 ** 48)  # when the value is first converted to another unit by `quantities` (a few more roundings)
NEAR = F(1, 2 ** 40)        # relative distance to a power of ten inside which float log10 may land on either side


def decade_candidates(q):
    """floor(log10 |q|) as float `log10` may see it: the exact decade, plus the neighbour when q is within NEAR of the boundary"""
    q = abs(q)
    e = ilog10(q)
    out = [e]
    if pow10(e + 1) - q <= NEAR * q:
        out.append(e + 1)
    if q - pow10(e) <= NEAR * q and q != pow10(e):
        out.append(e - 1)
    return out


def check_uncert_text(fmt, text, x, xe, p, suffix, with_layout=True, slack=SLACK):
    """The property for value(uncertainty) notation, stated so that it is TRUE OF THE FLOAT CODE ON ALL INPUTS (near-ties included):
    with q = (decade of |xe|) - p + 1 the printed value v and uncertainty u satisfy
        |v - x|  <= 10^q/2 + 2*slack*|x|,     v  within slack*|x|  of a multiple of 10^q,
        |u - xe| <= 10^q/2 + 2*slack*|xe|,    u  within slack*|xe| of a multiple of 10^q,
    slack = 2^-50 (relative; float evaluation of x*10**k, round, '%f').  x, xe: exact Fractions or floats."""
    X, XE = F(x), F(xe)
    try:
        sig, e, rest = read_sci(fmt, text)
        if sig is None:
            return '%r: a value given with an uncertainty is printed without significand and uncertainty' % text
        nom, dec, unc = sig_value(sig)
    except Unreadable as ex:
        return 'cannot read %r back (%s)' % (text, ex)
    if rest != suffix:
        return 'unit part: %r is followed by %r, expected %r' % (text, rest, suffix)
    if unc is None:
        return 'no uncertainty in %r' % text
    E = e if e is not None else 0
    val = nom * pow10(E)
    uval = unc * pow10(E - dec)

    def off_grid(v, q):
        r = v / pow10(q)
        return abs(r - round(r)) * pow10(q)

    why = None
    for xe_exp in decade_candidates(XE):
        q = xe_exp - p + 1                          # the uncertainty's last kept digit
        sx, se = slack * abs(X), slack * abs(XE)
        if abs(val - X) > pow10(q) / 2 + 2 * sx or off_grid(val, q) > sx:
            why = why or '%r: value %s is not %r rounded at 10^%d (float slack %.3g)' % (text, float(val), float(X), q, float(sx))
            continue
        if abs(uval - XE) > pow10(q) / 2 + 2 * se or off_grid(uval, q) > se:
            why = why or '%r: uncertainty %s is not %r rounded to %d digits' % (text, float(uval), float(XE), p)
            continue
        if not with_layout:
            return None
        n_int, u_int = round(val / pow10(q)), round(uval / pow10(q))

        def fixed(n, w):
            s = str(abs(n)).rjust(w + 1, '0')
            s = s if w == 0 else s[:-w] + '.' + s[-w:]
            return ('-' if n < 0 else '') + s
        plain = POW['plain'].match(text) is None if fmt == 'plain' else e is None
        lay = None
        for xexp in decade_candidates(X):
            if xexp - q < 0:
                continue
            l1 = len(fixed(n_int, xexp - q)) + len('(%d)e%d' % (u_int, xexp))
            l2 = len(fixed(n_int * 10 ** max(q, 0), max(0, -q))) + len('(%d)' % (u_int * 10 ** max(q, 0)))
            if plain and l2 > l1:
                lay = lay or '%r: plain layout (%d chars) chosen although the exponent layout has %d' % (text, l2, l1)
            elif not plain and l2 < l1:   # on a tie either is "the shorter" (the code prefers plain; tied by the correspondence)
                lay = lay or '%r: exponent layout (%d chars) chosen although the plain layout has %d' % (text, l1, l2)
            else:
                return None
        why = why or lay
    return why


# ----------------------------------------------------------------------------------------------------------
class C20(Property):
    pid = 'C20'
    title = ('scientific formatting (plain/LaTeX/unicode/HTML) denotes the value to the requested significant digits, significand '
             'omitted iff exactly 1, unit after it; value(uncertainty) notation denotes value and uncertainty rounded at the '
             "uncertainty's last kept digit in the shorter layout; roman numerals denote their integer; a reaction printed with "
             'its parameter shows magnitude and unit')
    props_module = 'ChemModel.Props.C20'
    build_modules = ('ChemModel.Model.NumFmt', 'ChemModel.Model.NumFmtFloat', 'ChemModel.Basic.Proto')
    driver = 'ChemModel/Driver/C20.lean'
    n_quick, n_thorough = 3000, 60000
    float_tol = 0.0
    rule = ('floats: random bit patterns, k-digit decimals x 10^(-300..300), carry / significand-1 / tie specials x 10^k, exact powers of '
            'ten, both signs; precisions 0..17 (mostly 1..10); 12 compound units; uncertainties 1e-8..0.5 relative with 1..6 digits incl. decimal '
            'near-ties (k5 one place below the kept digit), values hugging powers of ten, uncertainties rounding up to a power of ten, nominal '
            'powers of ten; uncertainty passed explicitly or carried by a quantities.UncertainQuantity, with/without unit= of another scale (13 '
            'conversions) in all three renderers; '
            'per-substance HTML tables: dict / OrderedDict / QuantityDict / list / tuple / ndarray x plain numbers, quantities in one compound unit, scalar '
            'quantities with mixed prefixes (M, mM, uM, mol/m3, mol/dm3, molal ...), container order != substance order, substances given or derived; '
            'roman 0..5000 and large; reactions with quantity/float/int/str/None parameters on the four printers. '
            'A case is non-trivial when it is a distinct JSON value.')
    assumptions = (
        'CPython %.Ng is the exact round-half-even specification of Model/NumFmt.lean (validated by the fmt_g correspondence on every run)',
        'theorems about the uncertainty notation are about EXACT arithmetic; the float code differs on decimal near-ties (2.675 +- 0.01 -> '
        '2.68(1), model 2.67(1)).  The float behaviour is tied by an exact-string correspondence with a float-faithful mirror '
        '(Model/NumFmtFloat.lean: Lean IEEE Float *, pow, log10 from the same libm, correctly rounded int->float, round-half-even, %f) on EVERY '
        'generated case; the exact model is compared only where no float rounding can interfere (not within 1e-9 of a power of ten, round() '
        'argument not within max(1e-9, q*1e-14) of a tie, at most 13 digits)',
        'oracle for the uncertainty notation: |printed value - x| <= 10^q/2 + 2*slack*|x|, printed value within slack*|x| of a multiple of 10^q, '
        'same for the uncertainty; slack = 2^-50 relative (2^-48 after a unit conversion by quantities); q from the decade of |xe| (either '
        'neighbouring decade accepted within 2^-40 of a power of ten); run on all cases incl. near-ties',
        'unit texts (latex_of_unit, unicode_of_unit, html_of_unit, dimensionality printers), to_unitless(number, unit) and the reaction text without '
        'parameter are taken from the real call and passed to the model as opaque values',
        'roman: non-negative ints only; -0.0, inf, nan are not sent',
    )
    clauses_without_theorem = (
        "CPython's '%.Ng' % x equals the modelled fmtG (exact-string correspondence on every run; the theorems are about fmtG)",
        'value(uncertainty) notation of the REAL code: float log10, x*10**k, round and %f are not modelled in the proved (exact) model; '
        'uncert_denotes/uncert_digits/uncert_shortest/uncert_layouts_denote hold for exact arithmetic only.  For the real code the clause '
        '"value rounded at the uncertainty\'s last kept digit, uncertainty to the requested digits, shorter layout" is decided by the oracle '
        '(with the stated float slack of 2^-50 relative) and by the exact-string correspondence with the float-faithful mirror',
        'unit handling of _number_to_X: unit_of(number), to_unitless(number, unit) are third-party; proved for the model: a common factor 10^k on value and '
        'uncertainty leaves the printed integers unchanged and shifts both exponents (uncert_decimal_rescale); non-decimal factors (km/h, hours) and that the '
        'code applies the SAME factor to an explicit or carried (UncertainQuantity) uncertainty, and the unit text itself (compound units are opaque strings in the model): oracle reads value and '
        'uncertainty back in the printed unit and compares with the given quantity; correspondence',
        'as_per_substance_html_table / Table._html: Substance.from_formula and html_name, the Python container protocols (cont[k] raising TypeError / '
        'IndexError for list, tuple, ndarray; dict, OrderedDict, QuantityDict lookups; numpy element access keeping the unit of an array Quantity), '
        'unit_of / html_of_unit of each cell.  Proved for the model: positional data pairs by position for distinct keys, rows in substance order, each cell '
        'formatted from its own magnitude and unit (table_positional_cell, table_rows_spec); that the real containers behave like the model\'s keyed / '
        'positional containers is decided by correspondence and by the oracle (every cell read back: value given for THAT substance in ITS unit, unit after it)',
        'fmt given as a callable: the text the callback returns is an opaque input (callback_text_spec proves what _number_to_X does with any such text); '
        'that Python calls fmt(mag) / fmt(mag, uncertainty) with the unitless magnitude is decided by correspondence and oracle (11 + 5 callbacks incl. malformed texts)',
        'is_unitless / dimensional simplification of ratio units (g/kg, cm/m, mM/M): the unit text is opaque in the model; that a scaled ratio unit is '
        'still printed is decided by correspondence and by the oracle (text after the number must be the unit of the quantity)',
        'numbers carrying .uncertainty other than quantities.UncertainQuantity; -0.0, inf, nan; callback texts with blanks/underscores in the exponent (Python int() accepts them, the model refuses)',
        'Reaction printing: the reaction text before the parameter, dimensionality printers, parameters that are rate-expression objects with their '
        'own string method (only quantity / float / int / str / None parameters are exercised)',
        'roman for negative ints (Python floor-division behaviour) is outside the model',
    )
    anchors = (('chempy/printing/numbers.py', 'roman'), ('chempy/printing/numbers.py', '_float_str_w_uncert'),
               ('chempy/printing/numbers.py', '_number_to_X'), ('chempy/printing/numbers.py', '_latex_pow_10'),
               ('chempy/printing/numbers.py', '_unicode_pow_10'), ('chempy/printing/numbers.py', '_html_pow_10'),
               ('chempy/printing/numbers.py', 'number_to_scientific_latex'), ('chempy/printing/numbers.py', 'number_to_scientific_unicode'),
               ('chempy/printing/numbers.py', 'number_to_scientific_html'),
               ('chempy/printing/string.py', 'StrPrinter._Reaction_param_str'), ('chempy/printing/string.py', 'StrPrinter._print_Reaction'),
               ('chempy/printing/printer.py', 'Printer._get'), ('chempy/printing/table.py', 'as_per_substance_html_table'),
               ('chempy/printing/table.py', 'Table._html'))

    # ---- generation ---------------------------------------------------------------------------
    def _float(self, rng):
        r = rng.random()
        if r < 0.25:
            while True:
                import struct
                x = struct.unpack('d', struct.pack('Q', rng.getrandbits(64)))[0]
                if math.isfinite(x) and 1e-300 <= abs(x) <= 1e300:
                    return x
        if r < 0.55:
            x = round(rng.uniform(1, 10), rng.randint(0, 9)) * 10.0 ** rng.randint(-300, 299)
        elif r < 0.8:
            x = float(rng.choice(SPECIAL)) * 10.0 ** rng.choice([0, 0, 0, rng.randint(-8, 8), rng.randint(-290, 280)])
        elif r < 0.9:
            x = float('1e%d' % rng.randint(-300, 300))
        else:
            k = rng.randint(1, 10 ** rng.randint(1, 9))          # exact decimal ties  (k + 1/2) * 2^j
            x = (k + 0.5) * 2.0 ** rng.choice([0, 0, -1, -2, -3, 1, 2])
        if x == 0 or not math.isfinite(x):
            x = 1.0
        return -x if rng.random() < 0.35 else x

    def _prec(self, rng):
        r = rng.random()
        if r < 0.85:
            return rng.randint(1, 10)
        if r < 0.9:
            return 0
        return rng.randint(11, 17)

    def _uncert(self, rng):
        """(x, xe, p): uncertainty 1e-8 .. 0.5 relative (plus specials and a wild stream).  Nothing is excluded: the float-faithful
        mirror is compared on every case, the exact model additionally where `uncert_modelled` holds, the oracle (with float slack) always."""
        for _ in range(200):
            x = self._float(rng)
            p = rng.choice([1, 1, 2, 2, 2, 3, 4, 5, 6, 8, 9, 10])
            r = rng.random()
            if r < 0.55:
                rel = 10.0 ** rng.uniform(-8, math.log10(0.5))
                xe = abs(x) * rel
                if rng.random() < 0.5:
                    xe = float('%.*g' % (rng.randint(1, 4), xe))
            elif r < 0.75:
                xe = float(rng.choice([1, 2, 3, 5, 9.6, 9.96, 0.95, 2.9, 3.49, 1.5, 0.35, 7.455, 4.742, 9.5, 9.95, 0.1, 10.0])) \
                    * 10.0 ** (math.floor(math.log10(abs(x))) - rng.randint(1, 7))
            elif r < 0.95:
                x, xe, p = self._near_tie(rng)
            else:
                xe = abs(self._float(rng))
            if not (math.isfinite(xe) and xe != 0 and math.isfinite(x) and x != 0):
                continue
            if -(ilog10(abs(F(xe))) - p + 1) >= 309:
                continue                                   # OverflowError region: known finding, kept out of the random stream (corpus)
            return x, xe, p
        return 3.1416, 0.029, 1

    def _near_tie(self, rng):
        """decimal literals whose last digit is a 5 exactly one place below the uncertainty's last kept digit (2.675 +- 0.01), i.e. the
        argument of round() is within an ulp of a half-integer; also values hugging a power of ten (float log10 boundary)"""
        r = rng.random()
        if r < 0.7:
            d = rng.randint(1, 12)                                   # digits kept
            k = rng.randint(10 ** (d - 1), 10 ** d - 1)
            e = rng.randint(-30, 30) if rng.random() < 0.8 else rng.randint(-280, 280)
            x = float('%d5e%d' % (k, e - d))                         # k.5 units of the last kept digit
            p = rng.randint(1, 4)
            lead = rng.choice([1, 2, 4.742, 7.455, 3, 9.6, 1.5])
            xe = float('%re%d' % (lead, e + p - 1))                  # last kept digit of xe = 10^e
            return (-x if rng.random() < 0.3 else x), xe, p
        if r < 0.85:                                                 # the uncertainty itself on a decimal tie
            p = rng.randint(1, 4)
            k = rng.randint(10 ** (p - 1), 10 ** p - 1)
            e = rng.randint(-20, 20)
            xe = float('%d5e%d' % (k, e - 1))
            x = float('%r' % (rng.uniform(1, 9.99) * 10.0 ** (e + p + rng.randint(0, 6))))
            return x, xe, p
        base = 10.0 ** rng.randint(-250, 250)                        # hugging a power of ten
        x = rng.choice([math.nextafter(base, 0), base, math.nextafter(base, math.inf), base * (1 - 2.0 ** -rng.randint(30, 52))])
        if rng.random() < 0.5:
            return x * rng.choice([1.0, 3.7, 123.4]), x / 10 ** rng.randint(1, 5), rng.randint(1, 3)
        return x, abs(x) * 10.0 ** -rng.randint(1, 6) * rng.choice([1.0, 2.9]), rng.randint(1, 3)

    def generate(self, rng, n, tier):
        cases = []
        for v in list(range(0, 60)) + [3999, 4000, 1994, 2024, 3888, 944, 499, 999, 1444]:
            cases.append({'op': 'roman', 'n': v})
        for sig in ['1', '1.0', '-1', '1.00', '2.5', '1.0(3)', '10', '01', '1.']:
            for man in ['+05', '-07', '12', '0', '-00', '+100', '-300']:
                cases.append({'op': 'pow_ten', 'fmt': rng.choice(FMTS), 'significand': sig, 'mantissa': man})
        for x in (1e5, 1.0004e5, 9.9996, -1e5, 1e-5, 1e13, 99999.5, 100000.5, 0.000099996, 1e4, 1e-4, 9.9995e-5):
            for p in (1, 3, 4, 5, 6):
                cases.append({'op': 'fmt_g', 'p': p, 'xf': float(x).hex()})
                cases.append({'op': 'number_to_x', 'fmt': FMTS[(p + int(abs(x))) % 3], 'p': p, 'xf': float(x).hex(), 'unit': None})
        # in-domain but beyond double precision: 9-10 uncertainty digits at 1e-8..1e-6 relative => nominal integers of 16-19 digits (> 2^53);
        # only the float-faithful mirror and the oracle-with-slack can be right here
        for _ in range(12):
            x = rng.uniform(1, 9.99) * 10.0 ** rng.randint(-20, 20)
            xe = abs(x) * 10.0 ** rng.uniform(-8, -6)
            pp = rng.choice([8, 9, 10])
            cases.append({'op': 'float_str_w_uncert', 'xf': x.hex(), 'xef': xe.hex(), 'p': pp})
            cases.append({'op': 'number_to_x_uncert', 'fmt': rng.choice(FMTS), 'p': pp, 'xf': (-x).hex(), 'xef': xe.hex(), 'unit': rng.choice([None, rng.choice(UNITS)])})
        # falsy / carried uncertainties: `uncertainty or getattr(number, "uncertainty", None)`
        for explicit in (None, 'zero_int', 'zero_float', 'zero_qty', 'value'):
            for carried in (None, 'zero', 'value'):
                for fmt in FMTS:
                    p_any = rng.choice([None, 0, 1, 2, 3])
                    while True:     # this op is compared with the EXACT model only: keep the non-zero uncertainties away from float near-ties
                        x, xe = rng.choice([(3.1416, 0.029), (1.234567, 0.0012), (12345.678, 9.6), (2.5e-7, 3.1e-9), (6.02214e23, 2.7e18)])
                        if all(uncert_modelled(x, e, 2 if p_any is None else p_any) for e in (xe, xe * 1.37)):
                            break
                    unit = rng.choice(UNITS) if (carried is not None or explicit == 'zero_qty' or rng.random() < 0.5) else None
                    cases.append({'op': 'number_to_x_any', 'fmt': fmt, 'p': p_any, 'xf': float(x).hex(),
                                  'explicit': explicit if explicit != 'value' else float(xe).hex(),
                                  'carried': None if carried is None else ((0.0).hex() if carried == 'zero' else float(xe * 1.37).hex()), 'unit': unit})
        # `fmt` given as a callback (with / without uncertainty, with / without unit, every renderer, well-formed and malformed texts)
        for name in CALLBACKS:
            for x in (1e5, 3.14159e-7, -2.5, 1.0004e5, 12345.678):
                cases.append({'op': 'number_to_x_cb', 'fmt': rng.choice(FMTS), 'cb': name, 'xf': float(x).hex(),
                              'unit': rng.choice([None, rng.choice(UNITS)])})
        for name in CALLBACKS_UNC:
            for x, xe in ((1e5, 30.0), (3.14159, 0.029), (-2.5e-7, 3e-9)):
                cases.append({'op': 'number_to_x_cb', 'fmt': rng.choice(FMTS), 'cb': name, 'xf': float(x).hex(), 'xef': float(xe).hex(),
                              'unit': rng.choice([None, rng.choice(UNITS)])})
        # per-substance HTML table: container type x value kind (plain numbers, quantities in one unit, quantities with mixed prefixes)
        for container in KEYED + POSITIONAL:
            for kind in ('plain', 'quantity', 'mixed'):
                for _ in range(2):
                    c = self._table_case(rng, container, kind)
                    if c is not None:
                        cases.append(c)
        cases.append({'op': 'html_table', 'container': 'ndarray', 'keys': ['H+', 'OH-', 'H2O'], 'values': [h.hex() for h in (1e-7, 2.5e-7, 55.4)],
                      'units': [[['mol', 1], ['dm', -3]]] * 3, 'header': 'c', 'subst': True, 'order': [0, 1, 2]})
        cases.append({'op': 'html_table', 'container': 'list', 'keys': ['H2O', 'H+', 'OH-'], 'values': [h.hex() for h in (2e-3, 3.5, 1e-7)],
                      'units': [[['molar', 1]], [['mM', 1]], [['uM', 1]]], 'header': None, 'subst': True, 'order': [0, 1, 2]})
        # the reviewer's float near-ties (real code and exact model differ; float mirror + oracle-with-slack run on them)
        for x, xe, p in ((2.675, 0.01, 1), (6.82025e25, 4.742e24, 4), (-8.349030831480901, 0.0007455, 3), (1.005, 0.01, 1),
                         (0.125, 0.01, 1), (2.5, 1.0, 1), (1.15, 0.1, 1), (1234.5, 1.0, 1), (999.9999999999999, 1.0, 1),
                         (1e-5, 1e-7, 1), (1e23, 1e21, 2), (1.2345678901234567e17, 150.0, 2), (0.35, 0.035, 1)):
            cases.append({'op': 'float_str_w_uncert', 'xf': float(x).hex(), 'xef': float(xe).hex(), 'p': p})
            cases.append({'op': 'number_to_x_uncert', 'fmt': FMTS[p % 3], 'p': p, 'xf': float(x).hex(), 'xef': float(xe).hex(), 'unit': None})
        # uncertainty travelling with the number (quantities.UncertainQuantity) and/or an explicit `unit=` of another scale
        for own, to, _sc in CONVERSIONS:
            for fmt in FMTS:
                x = float('%.5g' % (rng.uniform(1, 9.99) * 10.0 ** rng.randint(-9, 9)))
                xe = float('%.2g' % (abs(x) * 10.0 ** rng.uniform(-5, -0.5)))
                for carry in (True, False):
                    cases.append({'op': 'number_to_x_uncert', 'fmt': fmt, 'p': rng.choice([None, 1, 2, 3]), 'xf': x.hex(), 'xef': xe.hex(),
                                  'unit': own, 'unit_to': to, 'carry': carry})
        cases.append({'op': 'number_to_x_uncert', 'fmt': 'unicode', 'p': 1, 'xf': (3.1416).hex(), 'xef': (0.029).hex(),
                      'unit': [['metre', 1]], 'unit_to': [['cm', 1]], 'carry': True})
        # uncertainties whose leading digits round up to a power of ten (9.6 -> 10, 9.96 -> 10.0, 99.95 -> 100.0 ...)
        for lead, p in ((9.6, 1), (9.96, 2), (9.996, 3), (9.51, 1), (9.951, 2), (99.6, 2), (9.9996, 4), (9.7, 1)):
            for k in (-7, -3, 0, 2, 6, 11):
                x = float('%r' % (rng.choice([1.2345678, 3.14159, 9.87654, 5.5, 1.0, 2.5]) * 10.0 ** (k + rng.randint(2, 5))))
                xe = float('%re%d' % (lead, k))
                if True:
                    cases.append({'op': 'float_str_w_uncert', 'xf': x.hex(), 'xef': xe.hex(), 'p': p})
                    cases.append({'op': 'number_to_x_uncert', 'fmt': rng.choice(FMTS), 'p': p, 'xf': (-x if rng.random() < 0.3 else x).hex(),
                                  'xef': xe.hex(), 'unit': rng.choice([None, rng.choice(UNITS)])})
        # nominal values that are exact powers of ten (or round to one) printed WITH an uncertainty, every renderer, with/without unit
        for k in (0, 1, 3, 5, 6, 9, 12, 15, 18, 22):
            for j, lead, p in ((2, 3.0, 1), (3, 2.9, 2), (4, 1.5, 2), (5, 4.2, 1), (3, 9.6, 1)):
                x, xe = float('1e%d' % k), float('%re%d' % (lead, k - j))
                for xx in (x, -x, float('%r' % (x * (1 + 10.0 ** -(j + 3))))):
                    if True:
                        cases.append({'op': 'float_str_w_uncert', 'xf': xx.hex(), 'xef': xe.hex(), 'p': p})
                        for fmt in FMTS:
                            cases.append({'op': 'number_to_x_uncert', 'fmt': fmt, 'p': p, 'xf': xx.hex(), 'xef': xe.hex(),
                                          'unit': rng.choice([None, rng.choice(UNITS)])})
        while len(cases) < n:
            r = rng.random()
            if r < 0.22:
                cases.append({'op': 'fmt_g', 'p': self._prec(rng), 'xf': self._float(rng).hex()})
            elif r < 0.55:
                cases.append({'op': 'number_to_x', 'fmt': rng.choice(FMTS), 'p': rng.choice([None, self._prec(rng), self._prec(rng)]),
                              'xf': self._float(rng).hex(), 'unit': rng.choice([None, rng.choice(UNITS), rng.choice(UNITS)])})
            elif r < 0.68:
                x, xe, p = self._uncert(rng)
                cases.append({'op': 'float_str_w_uncert', 'xf': x.hex(), 'xef': xe.hex(), 'p': p})
            elif r < 0.8:
                x, xe, p = self._uncert(rng)
                dflt = rng.random() < 0.3
                c = {'op': 'number_to_x_uncert', 'fmt': rng.choice(FMTS), 'p': None if dflt else p, 'xf': x.hex(), 'xef': xe.hex(),
                     'unit': rng.choice([None, rng.choice(UNITS)])}
                if rng.random() < 0.4 and 1e-290 < abs(x) < 1e290 and abs(xe) > 1e-290:
                    own, to, _sc = rng.choice(CONVERSIONS)
                    c.update({'unit': own, 'unit_to': to, 'carry': rng.random() < 0.6})
                if dflt and -(ilog10(abs(F(xe))) - 2 + 1) >= 305:
                    c['p'] = p
                cases.append(c)
            elif r < 0.815:
                c = {'op': 'number_to_x_cb', 'fmt': rng.choice(FMTS), 'xf': self._float(rng).hex(), 'unit': rng.choice([None, rng.choice(UNITS)])}
                if rng.random() < 0.3:
                    c['cb'] = rng.choice(sorted(CALLBACKS_UNC))
                    c['xef'] = (abs(fx(c['xf'])) * 10.0 ** rng.uniform(-6, -0.5)).hex()
                else:
                    c['cb'] = rng.choice(sorted(CALLBACKS))
                cases.append(c)
            elif r < 0.84:
                c = self._table_case(rng, rng.choice(KEYED + POSITIONAL), rng.choice(['plain', 'quantity', 'quantity', 'mixed', 'mixed']))
                cases.append(c if c is not None else {'op': 'roman', 'n': rng.randint(1, 3999)})
            elif r < 0.87:
                cases.append({'op': 'roman', 'n': rng.choice([rng.randint(0, 5000), rng.randint(1, 3999), rng.randint(0, 10 ** rng.randint(1, 5))])})
            elif r < 0.97:
                kind = rng.choice(['quantity', 'quantity', 'quantity', 'float', 'float', 'int', 'str', 'none'])
                c = {'op': 'reaction_line', 'printer': rng.choice(['str', 'unicode', 'latex', 'html']), 'kind': kind,
                     'rxn': rng.choice(RXNS),
                     'name': rng.choice([None, None, 'r%d' % rng.randint(1, 99)])}
                if kind in ('quantity', 'float'):
                    c['xf'] = abs(self._float(rng)).hex() if rng.random() < 0.7 else self._float(rng).hex()
                if kind == 'quantity':
                    c['unit'] = rng.choice(UNITS)
                if kind == 'int':
                    c['value'] = rng.randint(-5, 10 ** 6)
                if kind == 'str':
                    c['value'] = rng.choice(['k1', 'abc', '1e5', 'Arrhenius'])
                cases.append(c)
            else:   # malformed / error stream
                m = rng.random()
                if m < 0.3:
                    cases.append({'op': 'float_str_w_uncert', 'xf': (0.0).hex(), 'xef': (1.0).hex(), 'p': 2})
                elif m < 0.5:
                    cases.append({'op': 'float_str_w_uncert', 'xf': self._float(rng).hex(), 'xef': (0.0).hex(), 'p': 1})
                elif m < 0.8:      # uncertainty far larger than the value: "%.-Nf" -> ValueError
                    x = float('%.3g' % rng.uniform(1, 9.5))
                    cases.append({'op': 'float_str_w_uncert', 'xf': x.hex(), 'xef': (x * 10.0 ** rng.randint(2, 6) * 1.37).hex(), 'p': rng.randint(1, 2)})
                else:
                    cases.append({'op': 'pow_ten', 'fmt': rng.choice(FMTS), 'significand': rng.choice(['1', '2.5']), 'mantissa': rng.choice(['', 'x', '+', '1e', '--1'])})
        return cases

    def _table_case(self, rng, container, kind):
        """as_per_substance_html_table: kind 'plain' = bare numbers, 'quantity' = every value in the same compound unit,
        'mixed' = scalar quantities with different prefixes/units per substance (not possible for an array Quantity / QuantityDict)"""
        if kind == 'mixed' and container in ('ndarray', 'qdict'):
            return None
        if kind == 'plain' and container == 'qdict':
            return None
        n = rng.randint(1, 6)
        keys = rng.sample(TABLE_KEYS, n)
        vals = []
        for _ in range(n):
            x = abs(self._float(rng))
            while not (1e-30 < x < 1e30):
                x = abs(self._float(rng))
            vals.append(x if rng.random() < 0.85 else -x)
        if kind == 'plain':
            units = [None] * n
        elif kind == 'quantity':
            units = [rng.choice(CONC_UNITS + UNITS)] * n
        else:
            units = [rng.choice(CONC_UNITS) for _ in range(n)]
        order = list(range(n))
        subst = True
        if container in KEYED:
            rng.shuffle(order)                       # insertion order of the container differs from the substance order
            subst = rng.random() < 0.6               # False: substances are derived from the container (its order decides)
        return {'op': 'html_table', 'container': container, 'keys': keys, 'values': [v.hex() for v in vals], 'units': units,
                'header': rng.choice([None, 'c', 'Concentration / M']), 'subst': subst, 'order': order}

    def _table_parts(self, c):
        """-> (container object, substances | None, header, expected rows [(key, html name, float, unit | None)] in row order)"""
        from collections import OrderedDict
        import numpy as np
        from chempy import Substance
        keys, order = c['keys'], c['order']
        xs = [fx(h) for h in c['values']]
        us = [make_unit(u) if u is not None else None for u in c['units']]
        vals = [x * u if u is not None else x for x, u in zip(xs, us)]
        kind = c['container']
        row_order = list(range(len(keys))) if c['subst'] else list(order)
        substances = OrderedDict((keys[i], Substance.from_formula(keys[i])) for i in row_order)
        if kind in KEYED:
            items = [(keys[i], vals[i]) for i in order]
            if kind == 'dict':
                cont = dict(items)
            elif kind == 'odict':
                cont = OrderedDict(items)
            else:
                from chempy._solution import QuantityDict
                cont = QuantityDict(us[0], OrderedDict(items))
        elif kind == 'list':
            cont = list(vals)
        elif kind == 'tuple':
            cont = tuple(vals)
        else:
            cont = np.array(xs) * us[0] if us[0] is not None else np.array(xs)
        expected = [(keys[i], substances[keys[i]].html_name, xs[i], us[i]) for i in row_order]
        return cont, (substances if c['subst'] else None), c['header'], expected

    # ---- model side ---------------------------------------------------------------------------
    def _unit_text(self, fmt, unit):
        from chempy import units as cu
        return {'latex': cu.latex_of_unit, 'unicode': cu.unicode_of_unit, 'html': cu.html_of_unit}[fmt](unit)

    def _rxn(self, c):
        from chempy import Reaction, Substance
        reac, prod = c['rxn']['reac'], c['rxn']['prod']
        kind = c['kind']
        if kind == 'quantity':
            param = fx(c['xf']) * make_unit(c['unit'])
        elif kind == 'float':
            param = fx(c['xf'])
        elif kind in ('int', 'str'):
            param = c['value']
        else:
            param = None
        subst = {k: Substance.from_formula(k) for k in list(reac) + list(prod)}
        return Reaction(reac, prod, param, name=c.get('name'), checks=()), subst

    def _print_rxn(self, c, rxn, subst, **kw):
        meth = {'str': 'string', 'unicode': 'unicode', 'latex': 'latex', 'html': 'html'}[c['printer']]
        return getattr(rxn, meth)(subst, **kw)

    def model_case(self, c):
        op = c['op']
        if op in ('roman', 'pow_ten'):
            return c
        if op == 'fmt_g':
            return dict(c, x=ratio(fx(c['xf'])))
        if op in ('number_to_x', 'number_to_x_uncert'):
            from chempy.units import to_unitless
            number, unc, _to, printed = self._x_args(c)
            m = dict(c, case=c)
            if printed is None:
                mag, um = number, unc
            else:
                mag = float(to_unitless(number, printed))
                uq = number.uncertainty if c.get('carry') else unc
                um = float(to_unitless(uq, printed)) if uq is not None else None
                m['unit'] = self._unit_text(c['fmt'], printed)
            m['x'] = ratio(mag)
            if um is not None:
                m['xe'] = ratio(um)
                m['xb'], m['xeb'] = bits(mag), bits(um)
                m['mode'] = 'both'
                m['exact'] = uncert_modelled(mag, um, 2 if c['p'] is None else c['p'])
            return m
        if op == 'number_to_x_any':
            from chempy.units import to_unitless
            number, unc, unit = self._any_args(c)
            mag = float(to_unitless(number, unit)) if unit is not None else number
            ex = c['explicit']
            carried = None if c['carried'] is None else ratio(fx(c['carried']))
            return {'op': 'number_to_x_any', 'fmt': c['fmt'], 'p': c['p'], 'x': ratio(mag), 'case': c,
                    'explicit': None if ex is None else (0 if ex.startswith('zero') else ratio(fx(ex))), 'carried': carried,
                    'unit': self._unit_text(c['fmt'], unit) if unit is not None else None}
        if op == 'number_to_x_cb':
            from chempy.units import to_unitless
            number, unc, _to, printed = self._x_args(c)
            cb = (CALLBACKS_UNC if 'xef' in c else CALLBACKS)[c['cb']]
            if printed is None:
                text = cb(number, unc) if unc is not None else cb(number)
                unit = None
            else:
                mag = to_unitless(number, printed)
                text = cb(mag, to_unitless(unc, printed)) if unc is not None else cb(mag)
                unit = self._unit_text(c['fmt'], printed)
            return {'op': 'number_to_x_cb', 'fmt': c['fmt'], 'text': text, 'unit': unit, 'case': c}
        if op == 'html_table':
            from chempy.units import html_of_unit
            _cont, _subst, header, expected = self._table_parts(c)
            cell = {c['keys'][i]: {'mag': ratio(fx(c['values'][i])),
                                   'unit': html_of_unit(make_unit(c['units'][i])) if c['units'][i] is not None else None} for i in range(len(c['keys']))}
            m = {'op': 'html_table', 'case': c, 'header': header or '',
                 'substances': [{'key': k, 'name': nm} for k, nm, _x, _u in expected]}
            if c['container'] in KEYED:
                m['kind'] = 'keyed'
                m['entries'] = [dict(cell[c['keys'][i]], key=c['keys'][i]) for i in c['order']]
            else:
                m['kind'] = 'positional'
                m['entries'] = [cell[k] for k in c['keys']]
            return m
        if op == 'float_str_w_uncert':
            x, xe = fx(c['xf']), fx(c['xef'])
            return dict(c, x=ratio(x), xe=ratio(xe), xb=bits(x), xeb=bits(xe), mode='both', exact=uncert_modelled(x, xe, c['p']))
        if op == 'reaction_line':
            rxn, subst = self._rxn(c)
            m = dict(c)
            m['rxn_spec'] = c['rxn']
            m['rxn'] = self._print_rxn(c, rxn, subst, with_param=False, with_name=False)
            kind = c['kind']
            if kind == 'quantity':
                from chempy.units import _latex_from_dimensionality
                dim = rxn.param.dimensionality
                ut = {'str': str, 'html': str, 'unicode': lambda d: d.unicode, 'latex': _latex_from_dimensionality}[c['printer']](dim)
                m['param'] = {'kind': 'quantity', 'mag': ratio(float(rxn.param.magnitude)), 'unit': ut}
            elif kind == 'float':
                m['param'] = {'kind': 'float', 'x': ratio(rxn.param)}
            elif kind in ('int', 'str'):
                m['param'] = {'kind': 'other', 'text': str(rxn.param)}
            else:
                m['param'] = None
            return m
        return c

    # ---- real code ----------------------------------------------------------------------------
    def impl(self, m):
        from chempy.printing import numbers as N
        op = m['op']
        try:
            if op == 'fmt_g':
                return ('%%.%dg' % m['p']) % fx(m['xf'])
            if op in ('number_to_x', 'number_to_x_uncert'):
                f = getattr(N, 'number_to_scientific_' + m['fmt'])
                number, unc, to, _printed = self._x_args(m['case'])
                return f(number, unc, to, m['p'])
            if op == 'float_str_w_uncert':
                return N._float_str_w_uncert(fx(m['xf']), fx(m['xef']), m['p'])
            if op == 'number_to_x_any':
                c0 = m['case']
                number, unc, _unit = self._any_args(c0)
                return getattr(N, 'number_to_scientific_' + c0['fmt'])(number, unc, None, c0['p'])
            if op == 'number_to_x_cb':
                c0 = m['case']
                f = getattr(N, 'number_to_scientific_' + c0['fmt'])
                number, unc, to, _printed = self._x_args(c0)
                return f(number, unc, to, (CALLBACKS_UNC if 'xef' in c0 else CALLBACKS)[c0['cb']])
            if op == 'html_table':
                from chempy.printing import as_per_substance_html_table, html
                cont, subst, header, _exp = self._table_parts(m['case'])
                return html(as_per_substance_html_table(cont, subst, header)).replace('\n', '\\n')
            if op == 'roman':
                return N.roman(m['n'])
            if op == 'pow_ten':
                return getattr(N, '_%s_pow_10' % m['fmt'])(m['significand'], m['mantissa'])
            if op == 'reaction_line':
                c = dict(m, rxn=m['rxn_spec'])
                rxn, subst = self._rxn(c)
                return self._print_rxn(c, rxn, subst, with_param=True, with_name=True)
        except Exception as e:
            return exc_name(e)
        return '!unknown-op'

    def same(self, m, io, mo):
        if m.get('mode') == 'both':
            # driver prints  <exact ℚ model> U+001F <float-faithful mirror>.  The mirror must equal the real output on EVERY case;
            # the exact model (the object of the theorems) must equal it wherever no float rounding can interfere (`uncert_modelled`).
            parts = mo.split('\x1f')
            return len(parts) == 2 and parts[1] == io and (parts[0] == io or not m.get('exact'))
        return io == mo

    def _any_args(self, c):
        """(number, uncertainty argument, unit | None) for a falsy/carried-uncertainty case"""
        x = fx(c['xf'])
        unit = make_unit(c['unit']) if c['unit'] is not None else None
        if c['carried'] is not None:
            import quantities as pq
            number = pq.UncertainQuantity(x, unit, fx(c['carried']))
        else:
            number = x * unit if unit is not None else x
        ex = c['explicit']
        if ex is None:
            unc = None
        elif ex == 'zero_int':
            unc = 0
        elif ex == 'zero_float':
            unc = 0.0
        elif ex == 'zero_qty':
            unc = 0.0 * unit
        else:
            unc = fx(ex) * unit if unit is not None else fx(ex)
        return number, unc, unit

    def _x_args(self, c):
        """(number, uncertainty argument, unit argument, unit the text is printed in | None) of the real call for a case"""
        x = fx(c['xf'])
        xe = fx(c['xef']) if 'xef' in c else None
        if c.get('unit') is None:
            return x, xe, None, None
        own = make_unit(c['unit'])
        to = make_unit(c['unit_to']) if c.get('unit_to') else None
        if c.get('carry'):
            import quantities as pq
            return pq.UncertainQuantity(x, own, xe), None, to, (to if to is not None else own)
        return x * own, (xe * own if xe is not None else None), to, (to if to is not None else own)

    # ---- the property on the real code ---------------------------------------------------------
    def oracle(self, c):
        from chempy.printing import numbers as N
        op = c['op']
        if op == 'roman':
            n = c['n']
            try:
                s = N.roman(n)
            except Exception as ex:
                return 'roman(%d) raised %s' % (n, exc_name(ex))
            if any(ch not in 'MDCLXVI' for ch in s):
                return 'roman(%d) = %r has a non-roman character' % (n, s)
            if read_roman(s) != n:
                return 'roman(%d) = %r reads back as %d' % (n, s, read_roman(s))
            return None
        if op == 'number_to_x_any':
            f = getattr(N, 'number_to_scientific_' + c['fmt'])
            number, unc, unit = self._any_args(c)
            x = fx(c['xf'])
            ex, ca = c['explicit'], c['carried']
            eff = fx(ex) if (ex is not None and not ex.startswith('zero')) else (fx(ca) if ca is not None else None)   # non-zero explicit wins
            suffix = '' if unit is None else ('\\,' if c['fmt'] == 'latex' else ' ') + self._unit_text(c['fmt'], unit)
            try:
                text = f(number, unc, None, c['p'])
            except Exception as ex_:
                if eff == 0 and isinstance(ex_, ValueError):
                    return None       # an uncertainty of exactly zero has no last kept digit: the refusal is the documented behaviour
                return 'number_to_scientific_%s(%r, %r, fmt=%r) raised %s' % (c['fmt'], number, unc, c['p'], exc_name(ex_))
            if eff is None or eff == 0:
                # no (or a zero) uncertainty: the plain form must denote the value to the requested significant digits
                return check_number_text(c['fmt'], text, x, 5 if c['p'] is None else max(c['p'], 1), suffix)
            return check_uncert_text(c['fmt'], text, x, eff, 2 if c['p'] is None else c['p'], suffix)
        if op == 'number_to_x_cb':
            from chempy.units import to_unitless
            f = getattr(N, 'number_to_scientific_' + c['fmt'])
            number, unc, to, printed = self._x_args(c)
            cb = (CALLBACKS_UNC if 'xef' in c else CALLBACKS)[c['cb']]
            mag = number if printed is None else to_unitless(number, printed)
            T = cb(mag, unc if printed is None else to_unitless(unc, printed)) if unc is not None else cb(mag)   # what the callback says
            suffix = '' if printed is None else ('\\,' if c['fmt'] == 'latex' else ' ') + self._unit_text(c['fmt'], printed)
            mT = CB_NUM.match(T)
            try:
                text = f(number, unc, to, cb)
            except ValueError:
                # a refusal is right exactly when the callback text cannot be split into significand and integer exponent
                return None if (T.count('e') >= 1 and mT is None) else 'callback text %r refused with ValueError' % T
            except Exception as ex:
                return 'number_to_scientific_%s(..., fmt=<callback %s>) raised %s' % (c['fmt'], c['cb'], exc_name(ex))
            if 'e' not in T:
                return None if text == T + suffix else 'callback text %r without exponent is printed as %r, expected %r' % (T, text, T + suffix)
            if mT is None:
                return 'malformed callback text %r accepted: %r' % (T, text)
            try:
                sig, e, rest = read_sci(c['fmt'], text)
            except Unreadable as ex:
                return 'cannot read %r back (%s)' % (text, ex)
            if rest != suffix:
                return 'unit part: %r is followed by %r, expected %r' % (text, rest, suffix)
            if e != int(mT.group('exp')):
                return '%r does not show the exponent of the callback text %r' % (text, T)
            want = mT.group('sig')
            if sig is None:
                nom, _dec, u_ = sig_value(want)
                if u_ is not None or nom != 1:
                    return 'significand %r of the callback text omitted in %r although it is not exactly 1' % (want, text)
            elif sig != want:
                return '%r does not show the significand %r of the callback text' % (text, want)
            elif want == '1':
                return 'significand exactly 1 is printed in %r' % text
            return None
        if op == 'html_table':
            from chempy.printing import as_per_substance_html_table, html
            from chempy.units import html_of_unit
            cont, subst, header, expected = self._table_parts(c)
            try:
                text = html(as_per_substance_html_table(cont, subst, header))
            except Exception as ex:
                return 'as_per_substance_html_table(%s of %s) raised %s' % (c['container'], c['units'], exc_name(ex))
            rows = ROW_RE.findall(text)
            if len(rows) != len(expected) or text.count('<tr>') != len(expected) + 1:
                return 'table has %d data rows for %d substances: %r' % (len(rows), len(expected), text[:200])
            for (name, cell), (key, hname, x, u) in zip(rows, expected):
                if name != hname:
                    return 'row order: row shows %r where substance %r (%r) is expected' % (name, key, hname)
                suffix = ' ' + html_of_unit(u) if u is not None else ''
                f = check_number_text('html', cell, x, 5, suffix)
                if f is not None:
                    return 'cell of %s (given %r %s in a %s): %s' % (key, x, html_of_unit(u) if u is not None else '', c['container'], f)
            return None
        if op == 'fmt_g':
            x, p = fx(c['xf']), max(c['p'], 1)
            return check_number_text('plain', ('%%.%dg' % c['p']) % x, x, p, '')
        if op == 'pow_ten':
            try:
                want_e = int(c['mantissa'])
            except ValueError:
                return None
            if not re.fullmatch(SIG, c['significand']):
                return None            # not a numeral the property speaks about: correspondence only
            try:
                text = getattr(N, '_%s_pow_10' % c['fmt'])(c['significand'], c['mantissa'])
                sig, e, rest = read_sci(c['fmt'], text)
            except Exception as ex:
                return '_%s_pow_10(%r, %r): %s' % (c['fmt'], c['significand'], c['mantissa'], exc_name(ex))
            if e != want_e or rest != '':
                return '%r does not show the exponent %d' % (text, want_e)
            nom, _dec, unc = sig_value(c['significand'])
            if sig is None:
                if unc is not None or nom != 1:
                    return 'significand %r omitted in %r although it is not exactly 1' % (c['significand'], text)
            elif sig != c['significand']:
                return '%r does not show the significand %r' % (text, c['significand'])
            elif c['significand'] == '1':
                return 'significand exactly 1 is printed in %r' % text
            return None
        if op in ('number_to_x', 'number_to_x_uncert'):
            f = getattr(N, 'number_to_scientific_' + c['fmt'])
            x = fx(c['xf'])
            xe = fx(c['xef']) if 'xef' in c else None
            number, unc, to, printed = self._x_args(c)
            scale, slack = F(1), SLACK
            if c.get('unit_to'):
                scale = CONV_SCALE[json.dumps([c['unit'], c['unit_to']])]
                slack = SLACK_UNIT
            X = F(x) * scale                           # the given value / uncertainty in the unit the text is printed in (exact)
            XE = F(xe) * scale if xe is not None else None
            p_unc = 2 if c['p'] is None else c['p']
            if xe is not None and min(decade_candidates(X)) < max(decade_candidates(XE)) - p_unc + 1:
                return None            # value below the uncertainty's last digit: outside the property (code raises ValueError)
            if xe is not None and ilog10(abs(X)) - (ilog10(abs(XE)) - p_unc + 1) > 300:
                return None            # more than 300 digits requested (relative uncertainty < 1e-290): far outside the property's domain
            suffix = ''
            if printed is not None:
                suffix = ('\\,' if c['fmt'] == 'latex' else ' ') + self._unit_text(c['fmt'], printed)
            try:
                text = f(number, unc, to, c['p'])
            except Exception as ex:
                return 'number_to_scientific_%s(%r, %r, unit=%r, fmt=%r) raised %s' % (c['fmt'], number, unc, c.get('unit_to'), c['p'], exc_name(ex))
            if xe is None:
                p = 5 if c['p'] is None else max(c['p'], 1)
                return check_number_text(c['fmt'], text, x, p, suffix)
            return check_uncert_text(c['fmt'], text, X, XE, p_unc, suffix, slack=slack)
        if op == 'float_str_w_uncert':
            x, xe, p = fx(c['xf']), fx(c['xef']), c['p']
            if x == 0 or xe == 0:
                return None
            if min(decade_candidates(F(x))) < max(decade_candidates(F(xe))) - p + 1:
                return None            # value below the uncertainty's last digit: outside the property (code raises ValueError)
            if ilog10(abs(F(x))) - (ilog10(abs(F(xe))) - p + 1) > 300:
                return None            # more than 300 digits requested: far outside the property's domain
            try:
                text = N._float_str_w_uncert(x, xe, p)
            except Exception as ex:
                return '_float_str_w_uncert(%r, %r, %d) raised %s' % (x, xe, p, exc_name(ex))
            return check_uncert_text('plain', text, x, xe, p, '')
        if op == 'reaction_line':
            rxn, subst = self._rxn(c)
            sep = '&#59; ' if c['printer'] == 'html' else '; '
            base = self._print_rxn(c, rxn, subst, with_param=False, with_name=False)
            text = self._print_rxn(c, rxn, subst, with_param=True, with_name=True)
            if not text.startswith(base):
                return '%r does not start with the reaction %r' % (text, base)
            rest = text[len(base):]
            if c.get('name') is not None:
                if not rest.endswith(sep + c['name']):
                    return '%r does not end with the name' % text
                rest = rest[:-len(sep + c['name'])]
            kind = c['kind']
            if kind == 'none':
                return None if rest == '' else 'unexpected text %r for a reaction without parameter' % rest
            if not rest.startswith(sep):
                return 'parameter separator missing in %r' % text
            rest = rest[len(sep):]
            if kind in ('int', 'str'):
                return None if rest == str(c['value']) else 'parameter %r printed as %r' % (c['value'], rest)
            fmt = {'str': 'plain', 'unicode': 'unicode', 'latex': 'latex', 'html': 'html'}[c['printer']]
            p = 3 if c['printer'] == 'str' else 5
            suffix = ''
            if kind == 'quantity':
                from chempy.units import _latex_from_dimensionality
                dim = rxn.param.dimensionality
                suffix = ' ' + {'str': str, 'html': str, 'unicode': lambda d: d.unicode, 'latex': _latex_from_dimensionality}[c['printer']](dim)
            return check_number_text(fmt, rest, fx(c['xf']), p, suffix)
        return None

    def classify(self, c):
        op = c['op']
        if op in ('fmt_g', 'number_to_x'):
            x = fx(c['xf'])
            e = math.floor(math.log10(abs(x)))
            dec = 'e<-4' if e < -4 else ('e>=16' if e >= 16 else 'mid')
            return '%s:%s:%s%s' % (op, c.get('fmt', 'plain'), dec, ':unit' if c.get('unit') else '')
        if op == 'number_to_x_uncert':
            return '%s:%s%s' % (op, c['fmt'], ':unit' if c.get('unit') else '')
        if op == 'reaction_line':
            return 'reaction_line:%s:%s' % (c['printer'], c['kind'])
        if op == 'number_to_x_any':
            return 'number_to_x_any:explicit=%s:carried=%s' % ('value' if c['explicit'] and not c['explicit'].startswith('zero') else c['explicit'],
                                                              None if c['carried'] is None else ('zero' if fx(c['carried']) == 0 else 'value'))
        if op == 'number_to_x_cb':
            return 'number_to_x_cb:%s:%s%s' % ('unc' if 'xef' in c else 'plain', c['cb'], ':unit' if c.get('unit') else '')
        if op == 'html_table':
            kinds = set(json.dumps(u) for u in c['units'])
            return 'html_table:%s:%s' % (c['container'], 'plain' if c['units'][0] is None else ('quantity' if len(kinds) == 1 else 'mixed-units'))
        if op == 'roman':
            return 'roman:' + ('1..3999' if 1 <= c['n'] <= 3999 else 'outside')
        return op

    def known_key(self, c, failure):
        """the one recorded defect: OverflowError of _float_str_w_uncert when -un_exp >= 309 (xe * 10**309: int too large for float)"""
        if c.get('op') not in ('float_str_w_uncert', 'number_to_x_uncert') or 'xef' not in c:
            return None
        if not str(failure).endswith('raised OverflowError'):
            return None
        xe = F(fx(c['xef']))
        if xe == 0:
            return None
        p = c.get('p')
        p = 2 if p is None else p
        un_exp = ilog10(abs(xe)) - p + 1
        return 'float_str_w_uncert-overflow' if -un_exp >= 309 else None


PROPERTY = C20()
