"""canonicalisers shared by the per-property harness modules (must print exactly what Proto.lean prints)"""
from fractions import Fraction
import json, math


def rat_json(q):
    """Fraction/int -> JSON value understood by Proto.asRat"""
    q = Fraction(q)
    return q.numerator if q.denominator == 1 else [q.numerator, q.denominator]


def show_rat(q):
    q = Fraction(q)
    return str(q.numerator) if q.denominator == 1 else '%d/%d' % (q.numerator, q.denominator)


def show_rat_list(l):
    return '[' + ','.join(show_rat(x) for x in l) + ']'


def show_int_list(l):
    return '[' + ','.join(str(int(x)) for x in l) + ']'


def show_str_list(l):
    return json.dumps(list(l), separators=(',', ':'), ensure_ascii=False)


def parse_rat(s):
    return Fraction(s)


def parse_rat_list(s):
    s = s.strip()
    assert s[0] == '[' and s[-1] == ']', s
    inner = s[1:-1]
    return [] if not inner else [Fraction(x) for x in inner.split(',')]


def close(a, b, rtol=1e-9, atol=0.0):
    """a: float from the implementation, b: Fraction/float from the model"""
    a = float(a)
    b = float(b)
    if math.isnan(a) or math.isnan(b):
        return math.isnan(a) and math.isnan(b)
    if math.isinf(a) or math.isinf(b):
        return a == b
    return abs(a - b) <= atol + rtol * max(abs(a), abs(b))


def exc_name(e):
    return type(e).__name__


def parse_float_list(s):
    """model output of floats: JSON-ish list; Lean prints NaN/inf as such"""
    s = s.strip()
    assert s[0] == '[' and s[-1] == ']', s
    inner = s[1:-1]
    return [] if not inner else [float(x.replace('NaN', 'nan')) for x in inner.split(',')]
