"""C01 — formula parsing yields exactly the written composition and charge"""
from fractions import Fraction
import json, re
from lib.framework import Property
from . import formula_gen as fg
from .util import *

REJECT = ('ParseException', 'ValueError')
WS = ' \t\n\r'
BAD_TOKENS = ['Xx', 'Ab', 'Hx', 'Q', 'J', 'Aa', 'Zz', 'Cos', 'Nah', 'Uu', 'X', 'A', 'D', 'E', 'G', 'L', 'M', 'R', 'T', 'Z', 'Feo', 'Ci']
BAD_CHARGES = ['+-', '-+', '+3-', '-2+', '++', '--', '+2+', '-1-', '+-2', '3+-', '+-3', '-+1']
INT_FORMS = ['+ 3', '+3 ', '-\t2\n', '+1_0', '-1_0_0', '+1__0', '+_1', '-1_', '+ ', '+1 0', '+\x0b3\x0c', '+\x1c3', '+007', '-0', '+0_0', '+ 1_2 (aq)']
OPEN = '([{'
CLOSE = {')': '(', ']': '[', '}': '{'}
ALPHABET = "()[]{}@.*'+-/·0123456789 abcdeglqrsuxy" + 'ABCDEFGHIKLMNOPRSTUVWXYZJQ'


# --------------------------------------------------------------------------- text-level classes (no chempy here)
def strip_affixes(s):
    """what `_formula_to_parts` is documented to do with the default prefixes / suffixes (independent re-statement)"""
    for p in fg.PREFIXES:
        if s.startswith(p):
            s = s[len(p):]
    for p in fg.SUFFIXES:
        if s.endswith(p):
            s = s[:-len(p)]
    return s


def unbalanced(s):
    st = []
    for ch in s:
        if ch in OPEN:
            st.append(ch)
        elif ch in CLOSE:
            if not st or st.pop() != CLOSE[ch]:
                return True
    return bool(st)


def ill_classes(s):
    """the rejection classes of the property that apply to the text `s`"""
    out = []
    if any(t not in fg.SYMBOLS for t in re.findall(r'[A-Z][a-z]*', s)):
        out.append('bad-capitalised-token')
    if unbalanced(s):
        out.append('unbalanced')
    core = strip_affixes(s)
    if ('+' in core and '-' in core) or core.count('+') > 1 or core.count('-') > 1:
        out.append('contradictory-charge')
    return out


def in_domain(s):
    """outside the modelled domain: non-ASCII digits anywhere, non-ASCII whitespace inside the charge number
    (both accepted by Python's `\\d` / int()); everything ASCII is modelled, incl. blanks and `_` in the charge number"""
    if any(ch.isdigit() and not ('0' <= ch <= '9') for ch in s) or any(ord(ch) > 127 and ch.isnumeric() for ch in s):
        return False
    core = strip_affixes(s)
    for tok in '+-':
        if tok in core:
            after = core.split(tok, 1)[1]
            if any(ord(ch) > 127 and ch.isspace() for ch in after):
                return False
            break
    return True


CHARGE_RE = re.compile(r'^([+-])(?:[ \t\n\r\x0b\x0c]*([0-9]+(?:_[0-9]+)*)[ \t\n\r\x0b\x0c]*)?\Z')
CHARGE_ALPHABET = "+-0123456789 _x.\t\n"
CHARGE_SEEDS = ['+', '-', '+3', '-2', '+12', '3+2', '2-1', '3+', '3-', '3', '', 'x', '+x', '+-', '-+', '+-3', '++3', '--', '+ 3', '+3 ', '-1_0',
                '+1__0', '+_1', '-1_', '+ ', '1+2-', '+1 0', '12+34', 'a+b', '+0', '-007', '+3.0', '.+', '+\t2\n']


def charge_spec(s):
    """independent re-statement (ASCII): `_get_charge` returns the written signed integer on `+`, `-`, sign + int()-readable number,
    and raises ValueError on everything else"""
    m = CHARGE_RE.match(s)
    if not m:
        return 'ValueError'
    sign = 1 if m.group(1) == '+' else -1
    return str(sign * (1 if m.group(2) is None else int(m.group(2).replace('_', ''))))


def leading_int_spec(s):
    i = 0
    while i < len(s) and '0' <= s[i] <= '9':
        i += 1
    return [int(s[:i]) if i else 1, s[i:]]


def gen_charge_text(rng):
    r = rng.random()
    if r < 0.35:
        return rng.choice(CHARGE_SEEDS)
    if r < 0.6:
        return rng.choice('+-') + str(rng.randint(0, 99))
    return ''.join(rng.choice(CHARGE_ALPHABET) for _ in range(rng.randint(0, 5)))


def gen_leading_text(rng):
    digits = ''.join(rng.choice('0123456789') for _ in range(rng.choice([0, 0, 1, 2, 3, 7])))
    return digits + rng.choice(['', 'H2O', ' H2O', 'x', '.5', 'H2O7', '\n3', '+3', 'e'])


# --------------------------------------------------------------------------- independent evaluator (no chempy, reference symbol table)
_WS = ' \t\n\r'
_SYMS = sorted(fg.SYMBOLS, key=len, reverse=True)
_STATES = ('(s)', '(l)', '(g)', '(aq)', '(cr)')
_CNT = re.compile(r'[0-9]+\.[0-9]+|[0-9]*')
_CLOSER = {'(': ')', '[': ']', '{': '}'}


def _skip(s, i):
    while i < len(s) and s[i] in _WS:
        i += 1
    return i


def _tail(s, i):
    """count? state? marks? after an element / closing bracket / cage body -> (multiplier, position)"""
    j = _skip(s, i)
    m = _CNT.match(s, j)
    n = Fraction(m.group()) if m.group() else Fraction(1)
    i = m.end()                       # position after the (possibly empty) count; the blanks before it are consumed
    j = _skip(s, i)
    for st in _STATES:
        if s.startswith(st, j):
            i = j + len(st)
            break
    j = _skip(s, i)
    k = j
    while k < len(s) and s[k] in "*'":
        k += 1
    if k > j:
        i = k
    return n, i


def _merge(pairs):
    d = {}
    for k, v in pairs:
        d[k] = d.get(k, 0) + v
    return list(d.items())


def _term(s, i):
    j = _skip(s, i)
    for sym in _SYMS:
        if s.startswith(sym, j):
            n, k = _tail(s, j + len(sym))
            return [(fg.SYMBOLS.index(sym) + 1, n)], k
    if j < len(s) and (s[j] in _CLOSER or s[j] == '@'):
        r = _terms(s, j + 1)
        if r is None:
            return None
        body, k = r
        if s[j] != '@':
            k = _skip(s, k)
            if k >= len(s) or s[k] != _CLOSER[s[j]]:
                return None
            k += 1
        n, k = _tail(s, k)
        return [(z, v * n) for z, v in body], k
    return None


def _terms(s, i):
    """one or more terms, greedy; summed per element in order of first occurrence"""
    out = []
    while True:
        r = _term(s, i)
        if r is None:
            break
        out.extend(r[0])
        i = r[1]
    return (_merge(out), i) if out else None


def spec_stoich(part):
    if part == 'e':
        return []
    r = _terms(part, 0)
    if r is None or _skip(part, r[1]) != len(part):
        return None
    return r[0]


def spec_parts(s, prefixes=None, suffixes=None):
    """independent re-statement of `_formula_to_parts`: [stoich, charge token | None, dropped prefixes, dropped suffixes] | 'ValueError'"""
    dp, ds = [], []
    for p in (fg.PREFIXES if prefixes is None else prefixes):
        if s.startswith(p):
            dp.append(p)
            s = s[len(p):]
    for p in (fg.SUFFIXES if suffixes is None else suffixes):
        if s.endswith(p):
            ds.append(p)
            s = s[:len(s) - len(p)] if p else ''        # Python: formula[:-0] == ''
    if '/' in s:
        return 'ValueError'
    for tok in '+-':
        if tok in s:
            if s.count(tok) > 1:
                return 'ValueError'
            a, b = s.split(tok)
            return [a, tok + b, dp, ds[::-1]]
    return [s, None, dp, ds[::-1]]


def spec_eval(s, prefixes=None, suffixes=None):
    """independent evaluation of a written formula: ordered list [(key, Fraction)] | 'reject'"""
    pts = spec_parts(s, prefixes, suffixes)
    if pts == 'ValueError':
        return 'reject'
    stoich, chg = pts[0], pts[1]
    parts = stoich.split('·') if '·' in stoich else stoich.split('..')
    tot = {}
    for i, part in enumerate(parts):
        m = 1
        if i:
            mm = re.match(r'[0-9]+', part)
            if mm:
                m, part = int(mm.group()), part[mm.end():]
        comp = spec_stoich(part)
        if comp is None:
            return 'reject'
        for k, v in comp:
            tot[k] = tot.get(k, 0) + m * v
    if chg is not None:
        q = charge_spec(chg)
        if q == 'ValueError':
            return 'reject'
        tot[0] = Fraction(int(q))
    return [(k, Fraction(v)) for k, v in tot.items()]


def value_mismatch(got, want, tol):
    """real dict vs the evaluator's ordered list (exact when every amount is an integer below 2**53, else relative tolerance)"""
    if list(got) != [k for k, _ in want]:
        return 'has keys %s (in this order), the written text has %s' % (list(got), [k for k, _ in want])
    for k, v in want:
        g = got[k]
        if isinstance(g, bool) or not isinstance(g, (int, float)):
            return '[%d] is a %s' % (k, type(g).__name__)
        if v.denominator == 1 and abs(v) < 2 ** 53 and isinstance(g, int):
            if g != v:
                return '[%d] = %r, written amount is %s' % (k, g, v)
        elif not close(g, v, tol, 0.0):
            return '[%d] = %r, written amount is %s' % (k, g, v)
    return None


def long_decimal(rng):
    """decimal count text with 5-12 decimals: close to an integer from below / above, close to zero, a third, or arbitrary"""
    d = rng.randint(5, 12)
    kind = rng.choice(['below', 'above', 'zero', 'third', 'random', 'random'])
    k = rng.choice([0, 0, 1, 1, 2, 3, 7, 11])
    if kind == 'below':
        return '%d.%s' % (k, '9' * d)
    if kind == 'above':
        return '%d.%s1' % (k, '0' * (d - 1))
    if kind == 'zero':
        return '0.%s%d' % ('0' * (d - 1), rng.randint(1, 9))
    if kind == 'third':
        return '%d.%s' % (k, rng.choice(['3' * d, '6' * (d - 1) + '7', '1' + '6' * (d - 2) + '7', '9' * (d - 1) + '5']))
    return '%d.%s%d' % (k, ''.join(rng.choice('0123456789') for _ in range(d - 1)), rng.randint(1, 9))


def sharpen_decimals(rng, f):
    """give some counts of the AST many decimals (also on groups, so that products come close to integers)"""
    def walk(ts):
        for t in ts:
            if t['t'] != 'cage' and rng.random() < 0.4:
                t['cnt'] = ['dec', long_decimal(rng)]
            if t['t'] != 'el':
                walk(t['body'])
    for p in f['parts']:
        walk(p['terms'])
        if rng.random() < 0.3:        # (X0.3333333 Y..)3 : a product close to an integer
            d = rng.randint(5, 12)
            body = [{'t': 'el', 'z': rng.randint(1, 118), 'cnt': ['dec', '0.' + '3' * d], 'state': '', 'marks': ''}]
            p['terms'].insert(0, {'t': 'grp', 'br': rng.choice('([{'), 'body': body, 'cnt': ['int', 3], 'state': '', 'marks': ''})
    return f


# --------------------------------------------------------------------------- canonical text
def show_comp_exact(comp):
    return ' '.join('%d:%s' % (k, show_rat(v)) for k, v in comp.items())


def show_comp_impl(comp):
    """real result: ints exactly, floats as exact ratios of the double (compared with a tolerance in `same`)"""
    out = []
    for k, v in comp.items():
        if isinstance(v, bool) or not isinstance(v, (int, float)):
            return '!bad-value-type:%s' % type(v).__name__
        if not isinstance(k, int) or isinstance(k, bool):
            return '!bad-key-type:%s' % type(k).__name__
        if isinstance(v, int):
            out.append('%d:%d' % (k, v))
        else:
            out.append('%d:~%s' % (k, show_rat(Fraction(v))))
    return ' '.join(out)


def parse_comp(text):
    """-> list of (key, Fraction, is_float)"""
    out = []
    for item in text.split(' '):
        if not item:
            continue
        k, v = item.split(':')
        fl = v.startswith('~')
        out.append((int(k), Fraction(v[1:] if fl else v), fl))
    return out


def comp_same(impl_text, model_text, tol):
    try:
        a, b = parse_comp(impl_text), parse_comp(model_text)
    except Exception:
        return False
    if [x[0] for x in a] != [x[0] for x in b]:      # same keys in the same (insertion) order
        return False
    for (k, va, fl), (_, vb, _) in zip(a, b):
        if fl or abs(va) >= 2 ** 53 or vb.denominator != 1:
            # a Python float, a huge int, or an int obtained by `n == int(n)` from a float product whose exact value is not an
            # integer (0.999999999999 * 1.000000000001 rounds to 1.0): relative tolerance; integer-valued amounts: exactly
            if not close(float(va), vb, tol, 0.0):
                return False
        elif va != vb:
            return False
    return True


_REAL = {}


def real_dicts(s):
    """[dict | exception class name] of formula_to_composition(s), Substance.from_formula(s).composition, Species.from_formula(s).composition (memoised per text)"""
    r = _REAL.get(s)
    if r is None:
        from chempy.util.parsing import formula_to_composition
        from chempy import Substance, Species
        r = []
        for fn in (formula_to_composition, lambda x: Substance.from_formula(x).composition, lambda x: Species.from_formula(x).composition):
            try:
                r.append(fn(s))
            except Exception as e:
                r.append(exc_name(e))
        if len(_REAL) > 300000:
            _REAL.clear()
        _REAL[s] = r
    return r


def run_real(s):
    """(canonical text | exception class) of the two real entry points"""
    return [show_comp_impl(x) if isinstance(x, dict) else x for x in real_dicts(s)]


def canon_exc(x):
    return 'reject' if x in REJECT else x


# --------------------------------------------------------------------------- generation helpers
def insert_ws(rng, s):
    out = []
    for ch in s:
        if rng.random() < 0.15:
            out.append(''.join(rng.choice(WS) for _ in range(rng.randint(1, 2))))
        out.append(ch)
    if rng.random() < 0.3:
        out.append(rng.choice(WS))
    return ''.join(out)


def mutate(rng, s):
    r = rng.random()
    if not s:
        return rng.choice(ALPHABET)
    i = rng.randrange(len(s))
    if r < 0.14:
        return s[:i] + s[i + 1:]                                   # drop
    if r < 0.26:
        return s[:i] + s[i] + s[i:]                                # duplicate
    if r < 0.38 and len(s) > 1:
        i = rng.randrange(len(s) - 1)
        return s[:i] + s[i + 1] + s[i] + s[i + 2:]                 # swap
    if r < 0.50:
        return s[:i] + rng.choice('()[]{}') + s[i:]                # stray bracket
    if r < 0.58:
        idx = [j for j, ch in enumerate(s) if ch in '()[]{}']
        if idx:
            j = rng.choice(idx)
            return s[:j] + s[j + 1:]                               # remove one bracket
        return s + rng.choice(')]}')
    if r < 0.72:
        return s[:i] + rng.choice(BAD_TOKENS) + s[i:]              # unknown capitalised token
    if r < 0.80:
        return s + rng.choice(BAD_CHARGES)                         # contradictory charge marks
    if r < 0.84:
        return strip_affixes(s).split('+')[0].split('-')[0] + rng.choice(INT_FORMS)   # what int() tolerates / refuses in the charge number
    if r < 0.90:
        return s[:i] + rng.choice(ALPHABET) + s[i:]
    if r < 0.95:
        return s[:i] + rng.choice(ALPHABET) + s[i + 1:]
    return s[:i] + rng.choice(['/', '/2+', '..', '·', '....', '@', 'e', '.']) + s[i:]


def gen_parse_with(rng, s):
    """formula_to_composition with non-default prefixes / suffixes, or Species.from_formula with non-default phases"""
    pool_s = ['(s)', '(l)', '(g)', '(aq)', '(cr)', '(am)', ')', '2']
    if rng.random() < 0.4:
        phases = rng.sample(['(s)', '(l)', '(g)', '(cr)', '(am)'], rng.randint(0, 3))
        core = strip_affixes(s)
        t = ''.join(rng.sample(fg.PREFIXES, rng.choice([0, 0, 1]))) + core + rng.choice([''] + phases + ['(aq)', '(s)'])
        return {'op': 'parse_with', 's': t, 'prefixes': None, 'suffixes': phases + ['(aq)'], 'phases': phases}
    prefixes = None if rng.random() < 0.3 else rng.sample(fg.PREFIXES + ['x-', 'n-', '', 'Fe'], rng.randint(0, 4))
    suffixes = rng.sample(pool_s + ([''] if rng.random() < 0.1 else []), rng.randint(0, 4))
    core = strip_affixes(s)
    t = ''.join(rng.sample(prefixes or fg.PREFIXES, rng.choice([0, 1, 1, 2]) if (prefixes is None or len(prefixes) >= 2) else 0)) + core \
        + ''.join(rng.sample(suffixes, rng.choice([0, 1, 1, 2]) if len(suffixes) >= 2 else 0))
    return {'op': 'parse_with', 's': t, 'prefixes': prefixes, 'suffixes': suffixes}


def gen_history(rng):
    """an operation history over one or two formulas: parse / construct / mutate the returned objects in place / parse again"""
    asts = [fg.gen_formula(rng, max_depth=2) for _ in range(rng.choice([1, 2, 2]))]
    if rng.random() < 0.5:
        asts[0]['charge'] = None                      # so that Substance.from_formula(..., charge=q) is admissible
    steps = []
    for _ in range(rng.randint(3, 7)):
        i = rng.randrange(len(asts))
        r = rng.random()
        if r < 0.25:
            steps.append({'do': 'parse', 'i': i})
        elif r < 0.50:
            steps.append({'do': 'mutate', 'i': i, 'how': rng.choice(['set0', 'scale', 'clear', 'pop', 'add'])})
        elif r < 0.65:
            steps.append({'do': 'substance', 'i': i, 'mutate': rng.random() < 0.5})
        elif r < 0.85:
            steps.append({'do': 'substance_charge', 'i': i, 'q': rng.choice([-3, -2, -1, 1, 2, 3])})
        else:
            steps.append({'do': 'species', 'i': i, 'mutate': rng.random() < 0.5})
    return {'kind': 'history', 'asts': asts, 'steps': steps}


def comp_mismatch(got, want, decimals, tol):
    """None if the real dict `got` is the composition `want` (exact Fractions), else a description"""
    if not isinstance(got, dict):
        return 'is %r' % (got,)
    if set(got) != set(want):
        return 'has keys %s, written elements/charge are %s' % (sorted(got), sorted(want))
    for k, v in want.items():
        g = got[k]
        if isinstance(g, bool) or not isinstance(g, (int, float)):
            return '[%d] is a %s' % (k, type(g).__name__)
        exact = not decimals and abs(v) < 2 ** 53
        if (exact and Fraction(g) != v) or not close(g, v, tol, 0.0):
            return '[%d] = %r, written amount is %s' % (k, g, v)
    return None


class C01(Property):
    pid = 'C01'
    title = ('parsing a formula written in the supported notation returns, for every atomic number, the sum over its occurrences of the '
             'product of the enclosing multipliers, key 0 = signed charge, no other keys; unknown capitalised tokens, unbalanced brackets '
             'and contradictory charge marks are rejected with an exception')
    props_module = 'ChemModel.Props.C01'
    build_modules = ('ChemModel.Model.Formula', 'ChemModel.Model.FormulaSpec', 'ChemModel.Driver.FormulaJson', 'ChemModel.Basic.Proto')
    driver = 'ChemModel/Driver/C01.lean'
    n_quick, n_thorough = 3000, 40000
    float_tol = 1e-12
    rule = ('formula ASTs from tools/harness/formula_gen.py (all 118 symbols, nested ( ) [ ] { } groups, @ cages, integer / decimal / explicit-1 '
            'counts, hydrate parts with both separators and leading counts, every default prefix, suffixes, states, primes/stars, charges) rendered '
            'and parsed by formula_to_composition and Substance.from_formula; ordered pairs of adjacent symbols (all 118^2 in the thorough tier, '
            '1500 random ones in the quick tier); whitespace variants; a malformed stream (drop/duplicate/swap characters, stray or missing brackets, '
            'unknown capitalised tokens, contradictory / repeated charge marks, int()-forms of the charge number (blanks, underscores), slashes, stray separators); decimal counts with 5-12 decimals close to / far from integers (also as products of group multipliers); formula_to_composition with non-default prefixes / suffixes and Species.from_formula with non-default phases; direct calls of _get_charge / _get_leading_integer on arbitrary short ASCII strings (every return / raise branch); operation histories (parse / Substance.from_formula(charge=) / Species.from_formula / in-place mutation of returned dicts / parse again) over one or two formulas. A case counts as non-trivial when it is '
            'a distinct JSON value whose text has at least two characters.')
    clauses_without_theorem = (
        'model <-> Python: pyparsing engine, str methods, dict order are modelled by hand; the tie is the correspondence check only (all theorems are about the model)',
        'Substance.from_formula(...).composition and Species.from_formula(...).composition delegate to formula_to_composition: guarded by the extractor '
        '(source text of Substance.from_formula) and checked by correspondence / history cases only',
        'float semantics of decimal subscripts: the real code multiplies Python floats and narrows n == int(n) to int; the theorems speak about exact rationals; '
        'agreement within 1e-12 relative is sampled (e.g. (Fe0.1)3 -> 0.30000000000000004)',
        'integer counts / products >= 2**53 lose precision in the real code (H9007199254740993 -> 9007199254740992); theorems are exact; harness compares exactly only below 2**53',
        'non-ASCII digits (accepted by \\d and int()) and non-ASCII whitespace inside the charge number: the model rejects them, Python accepts them; excluded from generation',
        'results are fresh objects (no aliasing between two parses, no effect of mutating a returned dict or of Substance(..., charge=q) on later parses): history cases, oracle only',
        'uniqueness of the string-level denotation Den (that a text has only one reading, den_functional) is not proved - it needs the completeness of the parser w.r.t. a tightened Den (est. 2-3 h); accepted_value_sound gives the reading the parser used; the ORDER of the returned keys is a theorem for rendered well-formed formulas (parse_render_exact) but for other accepted texts (whitespace variants, counted cages, ...) it is checked by correspondence and by the independent Python evaluator only',
        'the exception class of formula_to_composition is compared exactly with the model (no theorem: the class is the model\'s ErrKind by construction); Substance/Species.from_formula only as accept/reject (they evaluate formula_to_latex first: .alpha-Fe gives ValueError there)',
        'non-default prefixes= / suffixes= and Species.from_formula(phases=...): modelled (formulaToCompositionWith) and compared by correspondence + independent evaluator; parse_render is proved for the default lists only',
        '_get_leading_integer line 353 (raise on two matches of ^\\d+) is dead code: no input reaches it; not modelled',
    )
    assumptions = ('pyparsing (ordered choice, whitespace skipping, greedy OneOrMore, parse actions) is modelled as a recursive-descent parser and tied by this correspondence only',
                   'outside the modelled domain, excluded from generation: non-ASCII digits, non-ASCII whitespace inside the charge number (accepted by Python int())',
                   'Python float arithmetic on decimal counts is not modelled: exact rationals vs floats within 1e-12 relative; integer-only formulas exactly (below 2^53)',
                   'AST -> text renderer and denotation (tools/harness/formula_gen.py = Model/FormulaSpec.lean) are the specification')
    anchors = (('chempy/util/parsing.py', '_get_formula_parser'), ('chempy/util/parsing.py', '_get_charge'),
               ('chempy/util/parsing.py', '_formula_to_parts'), ('chempy/util/parsing.py', '_parse_stoich'),
               ('chempy/util/parsing.py', '_get_leading_integer'), ('chempy/util/parsing.py', 'formula_to_composition'),
               ('chempy/chemistry.py', 'Substance.from_formula'))

    # ------------------------------------------------------------------ generation
    def generate(self, rng, n, tier):
        cases = []
        depth = 4 if tier == 'quick' else 8
        for s in fg.WELL_KNOWN:
            cases.append({'op': 'parse', 's': s, 'src': 'well-known'})
            cases.append({'op': 'parts', 's': s})
        for z in range(1, 119):                                     # every symbol alone, with a count, in a group
            el = {'t': 'el', 'z': z, 'cnt': rng.choice([None, ['int', rng.randint(1, 12)]]), 'state': '', 'marks': ''}
            ts = [el] if rng.random() < 0.5 else [{'t': 'grp', 'br': rng.choice('([{'), 'body': [el], 'cnt': ['int', rng.randint(2, 5)], 'state': '', 'marks': ''}]
            cases.append({'op': 'roundtrip', 'src': 'symbol',
                          'ast': {'prefixes': [], 'sep': '..', 'parts': [{'n': None, 'terms': ts}], 'charge': None, 'suffix': ''}})
        if tier == 'thorough':
            pairs = [(a, b) for a in range(1, 119) for b in range(1, 119)]
        else:
            pairs = [(rng.randint(1, 118), rng.randint(1, 118)) for _ in range(1500)]
        for a, b in pairs:                                          # the Co / CO class
            cases.append({'op': 'roundtrip', 'src': 'adjacent', 'ast': fg.adjacency_formula(a, b)})
        for p in fg.PREFIXES:                                       # every default prefix, every suffix
            f = fg.gen_formula(rng, max_depth=1)
            f['prefixes'] = [p]
            f['suffix'] = rng.choice([''] + fg.SUFFIXES)
            cases.append({'op': 'roundtrip', 'src': 'gen', 'ast': f})
        for t in CHARGE_SEEDS:                                       # `_get_charge` / `_get_leading_integer` called directly (every branch)
            cases.append({'op': 'charge', 's': t})
        for t in ['', '7', '12H2O', 'H2O', '007H', '3.5H', ' 3H', '3\n4']:
            cases.append({'op': 'leading_int', 's': t})
        target = n + len(pairs)
        while len(cases) < target:
            r = rng.random()
            if r < 0.04:
                cases.append(gen_history(rng))
                continue
            if r < 0.07:
                cases.append({'op': 'charge', 's': gen_charge_text(rng)})
                continue
            if r < 0.08:
                cases.append({'op': 'leading_int', 's': gen_leading_text(rng)})
                continue
            f = fg.gen_formula(rng, max_depth=depth if rng.random() < 0.5 else rng.randint(0, depth))
            s = fg.render(f)
            if r < 0.14:
                f = sharpen_decimals(rng, f)
                cases.append({'op': 'roundtrip', 'src': 'longdec', 'ast': f})
            elif r < 0.18:
                cases.append(gen_parse_with(rng, s))
            elif r < 0.55:
                cases.append({'op': 'roundtrip', 'src': 'gen', 'ast': f})
            elif r < 0.63:
                t = insert_ws(rng, s)
                if in_domain(t):
                    cases.append({'op': 'parse', 's': t, 'src': 'whitespace'})
            elif r < 0.70:
                cases.append({'op': 'parts', 's': mutate(rng, s) if rng.random() < 0.5 else s})
            else:
                t = s
                for _ in range(rng.choice([1, 1, 1, 2, 3])):
                    t = mutate(rng, t)
                if in_domain(t):
                    cases.append({'op': 'parse', 's': t, 'src': 'mutated'})
        return cases

    # ------------------------------------------------------------------ correspondence
    def model_case(self, c):
        if not c.get('op'):
            return None
        if c['op'] == 'roundtrip':
            return {'op': 'roundtrip', 'ast': c['ast']}
        if c['op'] == 'parse_with':
            m = {'op': 'parse_with', 's': c['s'], 'suffixes': c['suffixes']}
            if c.get('prefixes') is not None:
                m['prefixes'] = c['prefixes']
            if c.get('phases') is not None:
                m['phases'] = c['phases']
            return m
        return {'op': c['op'], 's': c['s']}

    def impl(self, c):
        op = c['op']
        if op == 'roundtrip':       # Python spec (render, denotation) + the real parsers on the rendered text
            s = fg.render(c['ast'])
            a, b, b2 = run_real(s)
            if a != b or a != b2:
                return '!formula_to_composition=%s but Substance.from_formula=%s, Species.from_formula=%s' % (a, b, b2)
            return s + '\t' + show_comp_exact(fg.composition(c['ast'])) + '\t' + a
        if op == 'parse':
            a, b, b2 = run_real(c['s'])
            if canon_exc(a) != canon_exc(b) or canon_exc(a) != canon_exc(b2):
                return '!formula_to_composition=%s but Substance.from_formula=%s, Species.from_formula=%s' % (a, b, b2)
            return a
        if op == 'parse_with':
            from chempy.util.parsing import formula_to_composition
            from chempy import Species
            kw = {'suffixes': tuple(c['suffixes'])}
            if c.get('prefixes') is not None:
                kw['prefixes'] = list(c['prefixes'])
            try:
                a = show_comp_impl(formula_to_composition(c['s'], **kw))
            except Exception as e:
                a = exc_name(e)
            if c.get('phases') is not None:       # Species.from_formula(s, phases) must be formula_to_composition(s, suffixes=phases + ("(aq)",))
                try:
                    b = show_comp_impl(Species.from_formula(c['s'], phases=tuple(c['phases'])).composition)
                except Exception as e:
                    b = exc_name(e)
                if canon_exc(a) != canon_exc(b):
                    return '!formula_to_composition(suffixes=%r)=%s but Species.from_formula(phases=%r)=%s' % (c['suffixes'], a, c['phases'], b)
            return a
        if op == 'charge':
            from chempy.util.parsing import _get_charge
            try:
                r = _get_charge(c['s'])
                return str(r) if type(r) is int else '!bad-type:%s' % type(r).__name__
            except Exception as e:
                return exc_name(e)
        if op == 'leading_int':
            from chempy.util.parsing import _get_leading_integer
            try:
                m, rest = _get_leading_integer(c['s'])
                if type(m) is not int or type(rest) is not str:
                    return '!bad-type'
                return json.dumps([m, rest], separators=(',', ':'), ensure_ascii=False)
            except Exception as e:
                return exc_name(e)
        if op == 'parts':
            from chempy.util.parsing import _formula_to_parts, _latex_mapping
            try:
                r = _formula_to_parts(c['s'], _latex_mapping.keys(), ('(s)', '(l)', '(g)', '(aq)'))
                return json.dumps([r[0], r[1], list(r[2]), list(r[3])], separators=(',', ':'), ensure_ascii=False)
            except Exception as e:
                return exc_name(e)
        return '!unknown-op'

    def same(self, c, io, mo):
        op = c['op']
        if op == 'charge':
            return io == mo                       # exact: the integer, or the exception class (ValueError)
        if op == 'leading_int':
            try:
                return json.loads(io) == json.loads(mo)
            except Exception:
                return io == mo
        if op == 'parts':
            if io in REJECT or mo in REJECT:
                return canon_exc(io) == canon_exc(mo)
            try:
                return json.loads(io) == json.loads(mo)
            except Exception:
                return False
        if op in ('parse', 'parse_with'):
            if io in REJECT or mo in REJECT:
                return io == mo                   # formula_to_composition alone: the exception class must agree exactly
            return comp_same(io, mo, self.float_tol)
        if op == 'roundtrip':
            i3, m3 = io.split('\t'), mo.split('\t')
            if len(i3) != 3 or len(m3) != 3:
                return False
            if i3[0] != m3[0] or i3[1] != m3[1]:          # render and denotation: exact text
                return False
            if i3[2] in REJECT or m3[2] in REJECT:
                return i3[2] == m3[2]
            return comp_same(i3[2], m3[2], self.float_tol)
        return False

    # ------------------------------------------------------------------ the property on the real code
    def oracle(self, c):
        if c.get('kind') == 'history':
            return self._history(c)
        if c['op'] == 'roundtrip':
            f = c['ast']
            s = fg.render(f)
            want = fg.composition(f)
            for name, got in zip(('formula_to_composition', 'Substance.from_formula', 'Species.from_formula'), self._real_dicts(s)):
                if not isinstance(got, dict):
                    return '%s(%r) raised %s; the formula is well-formed' % (name, s, got)
                if set(got) != set(want):
                    return '%s(%r) has keys %s, written elements/charge are %s' % (name, s, sorted(got), sorted(want))
                for k, v in want.items():
                    g = got[k]
                    if isinstance(g, bool) or not isinstance(g, (int, float)):
                        return '%s(%r)[%d] is a %s' % (name, s, k, type(g).__name__)
                    exact = not fg.has_decimal(f) and abs(v) < 2 ** 53
                    if (exact and Fraction(g) != v) or not close(g, v, self.float_tol, 0.0):
                        return '%s(%r)[%d] = %r, written amount is %s' % (name, s, k, g, v)
            return None
        if c['op'] == 'charge':
            from chempy.util.parsing import _get_charge
            want = charge_spec(c['s'])
            try:
                r = _get_charge(c['s'])
                got = str(r) if type(r) is int else 'a %s' % type(r).__name__
            except Exception as e:
                got = exc_name(e)
            if got != want:
                return '_get_charge(%r) gave %s, the written charge token means %s' % (c['s'], got, want)
            return None
        if c['op'] == 'leading_int':
            from chempy.util.parsing import _get_leading_integer
            want = leading_int_spec(c['s'])
            try:
                got = list(_get_leading_integer(c['s']))
            except Exception as e:
                got = exc_name(e)
            if got != want:
                return '_get_leading_integer(%r) gave %r, the leading digits mean %r' % (c['s'], got, want)
            return None
        if c['op'] == 'parse':
            cls = ill_classes(c['s'])
            want = spec_eval(c['s'])              # independent evaluator: value claim for EVERY text, accepted or not
            for name, got in zip(('formula_to_composition', 'Substance.from_formula', 'Species.from_formula'), self._real_dicts(c['s'])):
                if cls and isinstance(got, dict):
                    return '%s(%r) returned %r although the text is ill-formed (%s)' % (name, c['s'], got, ', '.join(cls))
                if isinstance(got, dict) and want == 'reject':
                    return '%s(%r) returned %r although the text is not a formula of the supported notation' % (name, c['s'], got)
                if not isinstance(got, dict) and want != 'reject':
                    return '%s(%r) raised %s; the text reads as %s' % (name, c['s'], got, show_comp_exact(dict(want)))
                if isinstance(got, dict):
                    m = value_mismatch(got, want, self.float_tol)
                    if m:
                        return '%s(%r) %s' % (name, c['s'], m)
            return None
        if c['op'] == 'parse_with':
            from chempy.util.parsing import formula_to_composition
            want = spec_eval(c['s'], c.get('prefixes'), c['suffixes'])
            kw = {'suffixes': tuple(c['suffixes'])}
            if c.get('prefixes') is not None:
                kw['prefixes'] = list(c['prefixes'])
            try:
                got = formula_to_composition(c['s'], **kw)
            except Exception as e:
                got = exc_name(e)
            label = 'formula_to_composition(%r, prefixes=%r, suffixes=%r)' % (c['s'], c.get('prefixes'), c['suffixes'])
            if isinstance(got, dict) != (want != 'reject'):
                return '%s gave %r, the text reads as %r' % (label, got, want if want == 'reject' else show_comp_exact(dict(want)))
            if isinstance(got, dict):
                m = value_mismatch(got, want, self.float_tol)
                if m:
                    return '%s %s' % (label, m)
            return None
        if c['op'] == 'parts':
            from chempy.util.parsing import _formula_to_parts, _latex_mapping
            want = spec_parts(c['s'])
            try:
                r = _formula_to_parts(c['s'], _latex_mapping.keys(), ('(s)', '(l)', '(g)', '(aq)'))
                got = [r[0], r[1], list(r[2]), list(r[3])]
            except Exception as e:
                got = exc_name(e)
            if got != want:
                return '_formula_to_parts(%r) gave %r, expected %r' % (c['s'], got, want)
            return None
        return None

    def _history(self, c):
        """histories: after every step a fresh parse of every formula still equals the AST denotation and is a new object"""
        from chempy.util.parsing import formula_to_composition
        from chempy import Substance, Species
        asts = c['asts']
        texts = [fg.render(a) for a in asts]
        wants = [fg.composition(a) for a in asts]
        decs = [fg.has_decimal(a) for a in asts]
        seen = []                      # every dict object obtained so far (kept alive): (object, label)
        last = [None] * len(asts)

        def note(obj, label):
            for o, lab in seen:
                if obj is o:
                    return '%s returned the SAME dict object as %s (results must not be shared)' % (label, lab)
            seen.append((obj, label))
            return None

        def fresh(i, after):
            label = 'formula_to_composition(%r) after %s' % (texts[i], after)
            try:
                r = formula_to_composition(texts[i])
            except Exception as e:
                return '%s raised %s' % (label, exc_name(e))
            m = comp_mismatch(r, wants[i], decs[i], self.float_tol)
            if m:
                return '%s %s' % (label, m)
            last[i] = r
            return note(r, label)

        for n, st in enumerate(c['steps']):
            i, do = st['i'], st['do']
            where = 'step %d (%s on %r)' % (n, do, texts[i])
            try:
                if do == 'parse':
                    f = fresh(i, where)
                    if f:
                        return f
                elif do == 'mutate':
                    r = last[i]
                    if r is None:
                        f = fresh(i, where)
                        if f:
                            return f
                        r = last[i]
                    how = st['how']
                    if how == 'set0':
                        r[0] = 7
                    elif how == 'scale':
                        for k in list(r):
                            r[k] = r[k] * 2
                    elif how == 'clear':
                        r.clear()
                    elif how == 'pop' and r:
                        r.pop(next(iter(r)))
                    elif how == 'add':
                        r[119] = 1
                elif do in ('substance', 'species'):
                    cls = Substance if do == 'substance' else Species
                    sub = cls.from_formula(texts[i])
                    m = comp_mismatch(sub.composition, wants[i], decs[i], self.float_tol)
                    if m:
                        return '%s.from_formula(%r).composition %s' % (cls.__name__, texts[i], m)
                    f = note(sub.composition, '%s.from_formula(%r).composition at step %d' % (cls.__name__, texts[i], n))
                    if f:
                        return f
                    if do == 'species':
                        want_idx = {'(s)': 1, '(l)': 2, '(g)': 3}.get(asts[i]['suffix'], 0)
                        if sub.phase_idx != want_idx:
                            return 'Species.from_formula(%r).phase_idx = %r, suffix says %d' % (texts[i], sub.phase_idx, want_idx)
                    if st.get('mutate'):
                        sub.composition[0] = 5
                elif do == 'substance_charge':
                    if asts[i]['charge'] is None:
                        sub = Substance.from_formula(texts[i], charge=st['q'])
                        want = dict(wants[i])
                        want[0] = Fraction(st['q'])
                        m = comp_mismatch(sub.composition, want, decs[i], self.float_tol)
                        if m:
                            return 'Substance.from_formula(%r, charge=%d).composition %s' % (texts[i], st['q'], m)
                        f = note(sub.composition, 'Substance.from_formula(%r, charge=%d).composition at step %d' % (texts[i], st['q'], n))
                        if f:
                            return f
            except Exception as e:
                return '%s raised %s: %s' % (where, exc_name(e), str(e)[:100])
            for j in range(len(asts)):
                f = fresh(j, where)
                if f:
                    return f
        return None

    def _real_dicts(self, s):
        return real_dicts(s)

    def classify(self, c):
        if c.get('kind') == 'history':
            return 'history:%dformulas:%s' % (len(c['asts']), '+'.join(sorted({st['do'] for st in c['steps']})))
        if c['op'] == 'roundtrip':
            f = c['ast']
            return 'ast:%s:depth%d%s%s%s%s' % (c.get('src', 'gen'), fg.depth(f), ':dec' if fg.has_decimal(f) else '', ':chg' if f['charge'] else '',
                                               ':hyd' if len(f['parts']) > 1 else '', ':affix' if (f['prefixes'] or f['suffix']) else '')
        if c['op'] == 'parse_with':
            return 'parse_with:' + ('species-phases' if c.get('phases') is not None else 'prefixes-suffixes')
        if c['op'] == 'charge':
            return 'charge:' + ('accepted' if charge_spec(c['s']) != 'ValueError' else 'refused')
        if c['op'] == 'parse':
            cls = ill_classes(c['s'])
            return 'text:%s:%s' % (c.get('src', '?'), '+'.join(cls) if cls else 'unclassified')
        return c['op']

    def nontrivial(self, c):
        if c.get('kind') == 'history' or c.get('op') in ('charge', 'leading_int', 'parse_with'):
            return True
        s = fg.render(c['ast']) if c['op'] == 'roundtrip' else c.get('s', '')
        return len(s) >= 2

    def shrink(self, case, still_fails):
        if case.get('op') != 'parse':
            if case.get('kind') == 'history':
                return self._shrink_history(case, still_fails)
            return case
        s = case['s']
        changed = True
        while changed and len(s) > 1:
            changed = False
            for i in range(len(s)):
                t = s[:i] + s[i + 1:]
                c2 = dict(case, s=t)
                try:
                    if still_fails(c2):
                        s, changed = t, True
                        break
                except Exception:
                    pass
        return dict(case, s=s)


    def _shrink_history(self, case, still_fails):
        steps = list(case['steps'])
        changed = True
        while changed and len(steps) > 1:
            changed = False
            for k in range(len(steps)):
                c2 = dict(case, steps=steps[:k] + steps[k + 1:])
                try:
                    if still_fails(c2):
                        steps, changed = c2['steps'], True
                        break
                except Exception:
                    pass
        return dict(case, steps=steps)


PROPERTY = C01()
