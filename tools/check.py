import importlib, json, os, sys
sys.path.insert(0, os.path.join(os.path.dirname(os.path.abspath(__file__))))
from lib import framework


def load(pid):
    mod = importlib.import_module('harness.' + pid.lower())
    return mod.PROPERTY


def main():
    a = sys.argv[1:]
    if a and a[0] == 'replay':
        d = json.load(open(a[1]))
        sys.exit(framework.replay(load(d['property']), a[1]))
    if a and a[0] == 'pin':
        for pid in a[1:]:
            framework.pin(load(pid))
        return
    pid = a[0]
    tier = os.environ.get('VERIF_TIER', 'quick')
    if '--tier' in a:
        tier = a[a.index('--tier') + 1]
    seed = int(os.environ.get('VERIF_SEED', '0') or 0)
    try:
        rc = framework.check(load(pid), tier, seed)
    except Exception:
        import traceback
        traceback.print_exc()
        sys.exit(2)
    sys.exit(rc)


main()
