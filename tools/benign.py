#!/usr/bin/env python3
"""Run the checks against BEHAVIOUR-PRESERVING refactorings (benign/Rnn): the expected outcome is exit 0.
An exit 1 with `no-failing-input-found` is the accepted cost of a broken proof obligation/translation on a harmless
rewrite; an exit 1 with a counterexample would be a false alarm of an oracle.   usage: benign.py [Rnn ...]"""
import json, os, subprocess, sys, time
sys.path.insert(0, os.path.dirname(os.path.abspath(__file__)))
import seeded
VERIF = seeded.VERIF
base = os.path.join(VERIF, 'benign')
ids = sys.argv[1:] or sorted(os.listdir(base))
for rid in ids:
    d = os.path.join(base, rid)
    meta = json.load(open(os.path.join(d, 'meta.json')))
    pid = meta.get('property_hint') or 'C' + rid[1:]
    w = seeded.scratch()
    try:
        rc, out = seeded.sh(['git', '-C', w, 'apply', os.path.join(d, 'patch.diff')])
        if rc != 0:
            print(rid, 'patch does not apply', out[-200:]); continue
        env = dict(os.environ, VERIF_REPO=w, VERIF_TIER='quick')
        t0 = time.time()
        rc, out = seeded.sh([os.path.join(VERIF, 'check'), pid], env=env, cwd=VERIF)
        viol = [l for l in out.splitlines() if l.startswith('VIOLATION')]
        res = {'property': pid, 'check_rc': rc, 'violation_lines': viol, 'tail': out.splitlines()[-2:], 'wall_s': round(time.time() - t0, 1)}
        json.dump(res, open(os.path.join(d, 'result.json'), 'w'), indent=1)
        print(rid, pid, rc, 'no-failing-input-found' if viol and 'no-failing' in viol[0] else ('COUNTEREXAMPLE' if viol else 'silent'), flush=True)
    finally:
        seeded.drop(w)
seeded.sh(['/venv/bin/python', '-c', "import sys; sys.path.insert(0,'%s/tools'); from lib import framework; framework.extract_all()" % VERIF])
