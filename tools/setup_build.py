"""setup: regenerate Gen/*.lean from /repo and build every module any registered check needs"""
import importlib, json, os, sys
sys.path.insert(0, os.path.dirname(os.path.abspath(__file__)))
from lib import framework

probs = framework.extract_all()
print('extract problems:', probs)
mods = []
m = json.load(open(os.path.join(framework.VERIF, 'MANIFEST.json')))
for c in m['checks']:
    prop = importlib.import_module('harness.' + c['property_id'].lower()).PROPERTY
    for x in [prop.props_module] + list(prop.build_modules):
        if x and x not in mods:
            mods.append(x)
print('building', len(mods), 'modules')
ok, errors, out = framework.lake_build(mods)
print('\n'.join(out.splitlines()[-8:]))
for e in errors[:20]:
    print('ERROR', e)
sys.exit(0 if ok else 1)
