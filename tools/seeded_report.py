#!/usr/bin/env python3
"""markdown table of the seeded changes under /verif/seeded and what the checks did with them"""
import json, os
base = os.path.join(os.path.dirname(os.path.dirname(os.path.abspath(__file__))), 'seeded')
print('| id | change (independent sub-agent) | needs to manifest | check verdict | failing input reported |')
print('|---|---|---|---|---|')
for mid in sorted(os.listdir(base)):
    d = os.path.join(base, mid)
    if not os.path.isdir(d):
        continue
    meta = json.load(open(os.path.join(d, 'meta.json')))
    try:
        r = json.load(open(os.path.join(d, 'result.json')))
    except OSError:
        r = {}
    if not r:
        verdict = 'not run yet'
    elif r.get('check_rc') == 1 and r.get('replay_kind') == 'counterexample':
        verdict = 'VIOLATION with counterexample'
    elif r.get('check_rc') == 1:
        verdict = 'VIOLATION no-failing-input-found (obligation/correspondence broke)'
    elif r.get('check_rc') == 0:
        verdict = '**missed**'
    else:
        verdict = 'check error rc=%s' % r.get('check_rc')
    cell = lambda s: str(s).replace('|', '/').replace('\n', ' ')[:230]
    print('| %s | %s | %s | %s | %s |' % (mid, cell(meta.get('summary', '')), cell(meta.get('needs', '')), verdict, cell(r.get('replay_failure') or '')[:160]))
