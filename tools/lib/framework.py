"""Generic life-cycle of one property check (DESIGN.md section 2).

extract -> lake build (proof obligations) -> axiom audit -> correspondence
(model driver vs real code, same cases) + property oracle on the real code
-> decision, replay, evidence.

A property is described by a subclass of `Property` in tools/harness/cXX.py.
"""
import fcntl, hashlib, json, os, random, re, subprocess, sys, time, traceback

VERIF = os.path.dirname(os.path.dirname(os.path.dirname(os.path.abspath(__file__))))
LEAN = os.path.join(VERIF, 'lean')
REPO = os.environ.get('VERIF_REPO', '/repo')
ALLOWED_AXIOMS = {'propext', 'Classical.choice', 'Quot.sound'}
FORBIDDEN = re.compile(r'\bsorry\b|\badmit\b|^\s*axiom\s|native_decide|bv_decide|implemented_by|\bunsafe\s|maxHeartbeats\s+0\b', re.M)

TRUSTED_BASE = [
    'Lean 4.33.0 kernel; axioms allowed: propext, Classical.choice, Quot.sound (audited per theorem on every run)',
    'Mathlib v4.33.0 as a library of kernel-checked lemmas (proof files only)',
    'the extractor tools/extract/*.py (source text of /repo -> lean/ChemModel/Gen/*.lean)',
    'the correspondence harness tools/harness/*.py (generators, canonicalisers, tolerances) and the line-protocol drivers',
    'the hand-written reading of Python semantics in the model files; third-party code is modelled or parameterised, never verified',
]


def log(*a):
    print(*a, file=sys.stderr, flush=True)


def use_repo():
    """Make `import chempy` resolve to REPO's working tree (the venv holds an installed copy)."""
    if sys.path[0] != REPO:
        sys.path.insert(0, REPO)
    import warnings
    warnings.filterwarnings('ignore', category=DeprecationWarning)
    import chempy
    assert os.path.abspath(chempy.__file__).startswith(os.path.abspath(REPO) + os.sep), chempy.__file__
    return chempy


class Failure(dict):
    """A property failure observed on the real implementation."""


class Property:
    pid = 'C00'
    title = ''
    props_module = None        # e.g. 'ChemModel.Props.C14'
    build_modules = ()         # further modules that must build (driver imports)
    driver = None              # e.g. 'ChemModel/Driver/C14.lean' (relative to lean/)
    n_quick = 300
    n_thorough = 6000
    rule = ''
    assumptions = ()
    float_tol = 1e-9
    # source anchors of the hand-modelled code: (file relative to the repo, top-level or Class.method name | None = whole file).
    # When the text of an anchor differs from the pinned hash (tools/pins.json) the model may be stale:
    # the correspondence and the oracle are then run on `escalation` times as many cases.
    anchors = ()
    escalation = 6
    # clauses of the property text that NO theorem covers (decided by correspondence / oracle / sampling only);
    # copied into the evidence so that `discharged == obligations` is not read as "everything is proved"
    clauses_without_theorem = ()

    # ---- to be provided by subclasses -------------------------------------------------
    def corpus(self):
        p = os.path.join(VERIF, 'corpus', self.pid)
        out = []
        if os.path.isdir(p):
            for fn in sorted(os.listdir(p)):
                if fn.endswith('.json'):
                    with open(os.path.join(p, fn)) as f:
                        d = json.load(f)
                    out.extend(d if isinstance(d, list) else [d])
        return out

    def generate(self, rng, n, tier):
        return []

    def model_case(self, case):
        """the JSON object sent to the Lean driver for this case (None: oracle-only case)"""
        return case if case.get('op') else None

    def impl(self, mcase):
        """canonical output line of the real code for a model case (same format as the driver)"""
        raise NotImplementedError

    def same(self, case, impl_out, model_out):
        return impl_out == model_out

    def oracle(self, case):
        """None if the property holds on the real code for this case, else a short description."""
        return None

    def classify(self, case):
        return case.get('op', 'oracle-only')

    def nontrivial(self, case):
        return True

    def known_key(self, case, failure):
        """key into known_findings.jsonl for a failure of the real code, or None"""
        return None

    def extra_search(self, rng, tier, hints):
        """more cases for the failing-input search once an obligation or the correspondence broke"""
        return self.generate(rng, (self.n_quick if tier == 'quick' else self.n_thorough) * 2, tier)

    def shrink(self, case, still_fails):
        return case


# ---------------------------------------------------------------------------------------
def _run(cmd, cwd=None, timeout=None, env=None, inp=None):
    p = subprocess.run(cmd, cwd=cwd, stdout=subprocess.PIPE, stderr=subprocess.STDOUT, text=True,
                       timeout=timeout, env=env, input=inp)
    out = '\n'.join(l for l in p.stdout.splitlines() if 'conda.cli.condarc' not in l)
    return p.returncode, out


class Lock:
    """exclusive while Gen files are rewritten and lake builds; shared while a driver only reads the build"""
    def __init__(self, shared=False):
        self.mode = fcntl.LOCK_SH if shared else fcntl.LOCK_EX

    def __enter__(self):
        self.f = open(os.path.join(LEAN, '.lock'), 'a')
        fcntl.flock(self.f, self.mode)
        return self

    def __exit__(self, *a):
        fcntl.flock(self.f, fcntl.LOCK_UN)
        self.f.close()


def gen_fingerprint():
    h = hashlib.sha1()
    d = os.path.join(LEAN, 'ChemModel', 'Gen')
    for fn in sorted(os.listdir(d)):
        if fn.endswith('.lean'):
            h.update(fn.encode())
            h.update(open(os.path.join(d, fn), 'rb').read())
    return h.hexdigest()


def extract_all():
    """Regenerate lean/ChemModel/Gen/*.lean from REPO's working tree. Returns list of problems."""
    sys.path.insert(0, os.path.join(VERIF, 'tools'))
    from extract import run_all
    return run_all.run(REPO, os.path.join(LEAN, 'ChemModel', 'Gen'))


def lake_build(modules):
    rc, out = _run(['lake', 'build'] + list(modules), cwd=LEAN, timeout=3000)
    errors = []
    for m in re.finditer(r'^error: ([^\n:]+\.lean):(\d+):(\d+): (.*)$', out, re.M):
        errors.append({'file': m.group(1), 'line': int(m.group(2)), 'msg': m.group(4)[:300]})
    if rc != 0 and not errors:
        errors.append({'file': '?', 'line': 0, 'msg': out[-600:]})
    for e in errors:
        e['decl'] = _enclosing_decl(e['file'], e['line'])
    return rc == 0, errors, out


def _enclosing_decl(relfile, line):
    p = relfile if os.path.isabs(relfile) else os.path.join(LEAN, relfile)
    try:
        lines = open(p).read().splitlines()
    except OSError:
        return None
    for i in range(min(line, len(lines)) - 1, -1, -1):
        m = re.match(r'\s*(?:@\[[^\]]*\]\s*)?(?:private\s+|protected\s+)?(theorem|lemma|def|example|instance|abbrev)\s+([^\s:({\[]+)?', lines[i])
        if m:
            return '%s %s (%s:%d)' % (m.group(1), m.group(2) or '', relfile, i + 1)
    return None


AUDIT_TMPL = '''import Lean
import %(mod)s
open Lean Elab Command
run_cmd do
  let env ← getEnv
  let some idx := env.getModuleIdx? `%(mod)s | throwError "no module"
  let names := env.header.moduleData[idx.toNat]!.constNames
  for n in names do
    match env.find? n with
    | some (.thmInfo _) =>
      if n.isInternalDetail then continue
      let axs ← Lean.collectAxioms n
      logInfo m!"THEOREM {n} AXIOMS {axs.toList}"
    | _ => pure ()
'''


def audit(props_module):
    """-> (dict theorem -> [axioms]) using a Lean metaprogram over the compiled module"""
    d = os.path.join(LEAN, '.audit')
    os.makedirs(d, exist_ok=True)
    fn = os.path.join(d, props_module.split('.')[-1] + '.lean')
    with open(fn, 'w') as f:
        f.write(AUDIT_TMPL % {'mod': props_module})
    rc, out = _run(['lake', 'env', 'lean', fn], cwd=LEAN, timeout=1200)
    thms = {}
    for m in re.finditer(r'THEOREM (\S+) AXIOMS \[([^\]]*)\]', out):
        last = m.group(1).split('.')[-1]
        if last in ('congr_simp', 'eq_def', 'sizeOf_spec', 'injEq', 'inj') or re.match(r'eq_\d+$', last) or last.startswith('_'):
            continue          # lemmas Lean generates for definitions are not proof obligations of the property
        thms[m.group(1)] = [a.strip() for a in m.group(2).split(',') if a.strip()]
    return rc, thms, out


def source_scan():
    """forbidden constructs in any hand-written or generated Lean file (comments stripped)"""
    hits = []
    for root, _, files in os.walk(os.path.join(LEAN, 'ChemModel')):
        for fn in files:
            if fn.endswith('.lean'):
                p = os.path.join(root, fn)
                s = open(p).read()
                s = re.sub(r'/-.*?-/', lambda m: '\n' * m.group(0).count('\n'), s, flags=re.S)
                s = re.sub(r'--[^\n]*', '', s)
                for m in FORBIDDEN.finditer(s):
                    hits.append('%s:%d:%s' % (os.path.relpath(p, LEAN), s.count('\n', 0, m.start()) + 1, m.group(0).strip()))
    return hits


def run_driver(driver, lines):
    if not lines:
        return True, []
    rc, out = _run(['lake', 'env', 'lean', '--run', driver], cwd=LEAN, timeout=3000, inp='\n'.join(lines) + '\n')
    res = out.split('\n')
    if res and res[-1] == '':
        res.pop()
    return rc == 0 and len(res) == len(lines), res


def anchor_hashes(prop):
    import ast
    out = {}
    for rel, name in prop.anchors:
        key = rel + ('::' + name if name else '')
        try:
            src = open(os.path.join(REPO, rel), encoding='utf-8').read()
            if name:
                node = ast.parse(src)
                for part in name.split('.'):
                    node = next(n for n in ast.walk(node) if isinstance(n, (ast.FunctionDef, ast.ClassDef)) and n.name == part)
                src = ast.dump(node)          # insensitive to comments / layout, sensitive to any code change
            out[key] = hashlib.sha1(src.encode()).hexdigest()
        except Exception as e:
            out[key] = 'unreadable:' + type(e).__name__
    return out


def changed_anchors(prop):
    try:
        pins = json.load(open(os.path.join(VERIF, 'tools', 'pins.json'))).get(prop.pid, {})
    except OSError:
        pins = {}
    cur = anchor_hashes(prop)
    return sorted(k for k, v in cur.items() if pins.get(k) != v)


def pin(prop):
    p = os.path.join(VERIF, 'tools', 'pins.json')
    try:
        pins = json.load(open(p))
    except OSError:
        pins = {}
    pins[prop.pid] = anchor_hashes(prop)
    with open(p, 'w') as f:
        json.dump(pins, f, indent=1, sort_keys=True)
    print('pinned', prop.pid, len(pins[prop.pid]), 'anchors')


def load_known():
    p = os.path.join(VERIF, 'known_findings.jsonl')
    open_, fixed = {}, []
    if os.path.exists(p):
        for l in open(p):
            l = l.strip()
            if not l or l.startswith('#'):
                continue
            d = json.loads(l)
            if d.get('status') == 'open':
                open_[(d['property'], d['key'])] = d
            else:
                fixed.append(d)
    return open_, fixed


def write_replay(pid, kind, payload):
    os.makedirs(os.path.join(VERIF, 'replays'), exist_ok=True)
    h = hashlib.sha1(json.dumps(payload, sort_keys=True, default=str).encode()).hexdigest()[:10]
    rel = 'replays/%s-%s-%s.json' % (pid, kind, h)
    payload = dict(payload)
    payload.update({'property': pid, 'kind': kind, 'replay_cmd': './check replay ' + rel})
    with open(os.path.join(VERIF, rel), 'w') as f:
        json.dump(payload, f, indent=1, default=str)
    return rel


class CaseTimeout(BaseException):
    """raised by SIGALRM inside a call of the real code; BaseException so that `except Exception` in chempy cannot swallow it"""


CASE_TIMEOUT_S = 60


def _alarm(signum, frame):
    raise CaseTimeout()


def safe(fn, *a):
    """call into the harness / the real code: never crashes the check, never runs away"""
    import signal
    limit = getattr(getattr(fn, '__self__', None), 'case_timeout', CASE_TIMEOUT_S)
    old = signal.signal(signal.SIGALRM, _alarm)
    signal.alarm(int(limit))
    try:
        return fn(*a)
    except CaseTimeout:
        return '!timeout:%ds' % limit
    except Exception as e:  # the harness itself must not crash on a changed tree
        return '!harness-exception:%s:%s' % (type(e).__name__, str(e)[:200])
    finally:
        signal.alarm(0)
        signal.signal(signal.SIGALRM, old)


def check(prop, tier, seed):
    t0 = time.time()
    pid = prop.pid
    rng = random.Random('%s-%s' % (pid, seed))
    n = prop.n_quick if tier == 'quick' else prop.n_thorough
    stale = changed_anchors(prop)
    if stale:
        log('%s: source of modelled code changed (%s): escalating the correspondence' % (pid, ', '.join(stale)))
        n *= prop.escalation
    known_open, _ = load_known()
    broken = []          # obligations / correspondences that no longer check
    violations = []      # (case, failure) on the real code, not known
    known_hits = {}
    use_repo()

    # 1-3: extract, build, audit (serialised between concurrently running checks)
    def build_phase():
        """Gen files already as the extractor would write them (the normal case): build under the SHARED lock, so that
        checks of different properties run side by side. Otherwise rewrite them under the exclusive lock."""
        nonlocal thms
        sys.path.insert(0, os.path.join(VERIF, 'tools'))
        from extract import run_all
        gendir = os.path.join(LEAN, 'ChemModel', 'Gen')
        problems, files = run_all.compute(REPO)
        for p in problems:
            log('extract:', p)
        with Lock(shared=True):
            if run_all.on_disk(gendir, files):
                return build_locked()
        with Lock():
            for fn, content in files.items():
                if not run_all.on_disk(gendir, {fn: content}):
                    with open(os.path.join(gendir, fn), 'w', encoding='utf-8') as f:
                        f.write(content)
            return build_locked()

    def build_locked():
        nonlocal thms
        br = []
        if True:
            mods = [prop.props_module] + list(prop.build_modules)
            ok, errors, out = lake_build(mods)
            thms = {}
            if not ok:
                for e in errors:
                    br.append({'what': 'lean-build', 'file': e['file'], 'line': e['line'], 'decl': e.get('decl'), 'msg': e['msg']})
                # try to build the model/driver part alone so that the correspondence can still run
                ok_model, _, _ = lake_build(list(prop.build_modules)) if prop.build_modules else (True, [], '')
            else:
                ok_model = True
                rc, thms, aout = audit(prop.props_module)
                if rc != 0 or not thms:
                    br.append({'what': 'axiom-audit', 'msg': aout[-500:]})
                for t, axs in thms.items():
                    bad = [a for a in axs if a not in ALLOWED_AXIOMS]
                    if bad:
                        br.append({'what': 'axioms', 'decl': t, 'msg': 'depends on ' + ', '.join(bad)})
                if tier == 'thorough':
                    rc, lout = _run(['lake', 'env', 'leanchecker', prop.props_module], cwd=LEAN, timeout=3000)
                    if rc != 0:
                        br.append({'what': 'leanchecker', 'msg': lout[-500:]})
            for h in source_scan():
                br.append({'what': 'forbidden-construct', 'msg': h})
            return ok, ok_model, br, gen_fingerprint()

    thms = {}
    ok, ok_model, build_broken, fp = build_phase()

    # 4: correspondence + oracle (case generation and the real code run outside the lock)
    cases = list(prop.corpus()) + list(prop.generate(rng, n, tier))
    mcases = [safe(prop.model_case, c) for c in cases]
    op_cases = [m for m in mcases if isinstance(m, dict)]
    model_out = []
    if prop.driver and op_cases:
        for attempt in range(3):
            if not ok_model:
                break
            with Lock(shared=True):
                if gen_fingerprint() == fp:
                    okd, model_out = run_driver(prop.driver, [json.dumps(c) for c in op_cases])
                    if not okd:
                        build_broken.append({'what': 'driver', 'msg': 'driver failed or line count mismatch: ' + '\n'.join(model_out[-5:])[:500]})
                        model_out = []
                    break
            # another run (e.g. against a scratch tree) regenerated Gen in between: rebuild for this tree
            ok, ok_model, build_broken, fp = build_phase()
        if not ok_model:
            build_broken.append({'what': 'driver', 'msg': 'model does not build; correspondence not run'})
    broken.extend(build_broken)

    stats = {}
    distinct = set()
    disagreements = []
    compared = 0
    mo = iter(model_out) if model_out else None
    samples = []
    for c, mc in zip(cases, mcases):
        cls = safe(prop.classify, c)
        stats[cls] = stats.get(cls, 0) + 1
        if prop.nontrivial(c):
            distinct.add(json.dumps(c, sort_keys=True, default=str))
        if isinstance(mc, dict):
            io = safe(prop.impl, mc)
            if mo is not None:
                m = next(mo)
                compared += 1
                if safe(prop.same, mc, io, m) is not True:
                    disagreements.append({'case': c, 'model_case': mc, 'impl': io, 'model': m})
            if len(samples) < 6 and rng.random() < 0.3:
                samples.append({'case': c, 'impl': io})
        elif isinstance(mc, str):   # the harness could not even prepare the case on this tree
            disagreements.append({'case': c, 'model_case': None, 'impl': mc, 'model': None})
        f = safe(prop.oracle, c)
        if f is not None:
            _note_failure(prop, c, f, known_open, known_hits, violations)
    if not samples and cases:
        samples.append({'case': cases[0]})

    for d in disagreements[:20]:
        broken.append({'what': 'correspondence', 'op': d['case'].get('op'), 'case': d['case'], 'impl': d['impl'], 'model': d['model']})
    n_dis = len(disagreements)

    # 6: something broke -> failing-input search on the real code
    searched = 0
    if broken and not violations:
        hints = [b.get('case') for b in broken if b.get('case')]
        for c in hints + list(prop.extra_search(rng, tier, broken)):
            searched += 1
            f = safe(prop.oracle, c)
            if f is not None:
                _note_failure(prop, c, f, known_open, known_hits, violations)
                if violations:
                    break

    status = 0
    lines = []
    for k, (c, f) in known_hits.items():
        lines.append('KNOWN-FINDING: property=%s %s' % (pid, known_open[(pid, k)].get('what', k)))
    replay = None
    if violations:
        c, f = violations[0]
        c2 = safe(prop.shrink, c, lambda x: prop.oracle(x) is not None)
        if isinstance(c2, dict) and safe(prop.oracle, c2) is not None:
            c, f = c2, safe(prop.oracle, c2)
        replay = write_replay(pid, 'counterexample', {'case': c, 'failure': f, 'broken': broken[:5],
                                                        'requires': prop.title})
        lines.append('VIOLATION property=%s replay=%s' % (pid, replay))
        status = 1
    elif broken:
        replay = write_replay(pid, 'unproved', {'broken': broken[:10], 'searched_cases': searched,
                                                 'note': 'a proof obligation or the model/implementation correspondence no longer checks; '
                                                         'the search over the real implementation found no input on which the property fails'})
        lines.append('VIOLATION property=%s replay=%s no-failing-input-found' % (pid, replay))
        status = 1

    obligations = len(thms)
    discharged = sum(1 for t, a in thms.items() if all(x in ALLOWED_AXIOMS for x in a))
    if not ok:
        obligations = max(obligations, 1)
        discharged = 0
    ev = {
        'property_id': pid, 'tier': tier, 'seed': int(seed), 'level': 'proof',
        'coverage': {
            'obligations': obligations, 'discharged': discharged,
            'checker_cmd': 'cd lean && lake build %s && lake env lean .audit/%s.lean' % (prop.props_module, pid)
                           + (' && lake env leanchecker %s' % prop.props_module if tier == 'thorough' else ''),
            'trusted_base': TRUSTED_BASE,
            'theorems': sorted(thms),
            'partial_theorems': sorted(t for t in thms if t.endswith('_partial')),
            'clauses_without_theorem': list(prop.clauses_without_theorem),
            'axioms_used': sorted({a for v in thms.values() for a in v}),
            'evaluations': len(cases), 'distinct_nontrivial': len(distinct),
            'rule': prop.rule,
            'samples': samples[:6],
            'traces_validated_against_impl': compared,
            'correspondence_disagreements': n_dis,
            'oracle_evaluations': len(cases) + searched,
            'input_distribution': stats,
            'float_tolerance': prop.float_tol,
            'broken_obligations': broken[:10],
            'modelled_source_changed': stale,
            'known_findings_hit': sorted(known_hits),
        },
        'assumptions': list(prop.assumptions),
        'wall_s': round(time.time() - t0, 2),
        'violations': 1 if status else 0,
    }
    # evidence describes runs against /repo only; a run against a scratch tree (VERIF_REPO, seeded mutants) must not overwrite it
    evdir = os.path.join(VERIF, 'evidence') if os.path.abspath(REPO) == '/repo' else os.path.join(VERIF, 'replays', 'scratch-evidence')
    evdir = os.environ.get('VERIF_EVIDENCE_DIR') or evdir      # tools/anchor_coverage.py: instrumented runs never touch evidence/
    os.makedirs(evdir, exist_ok=True)
    with open(os.path.join(evdir, pid + '.json'), 'w') as f:
        json.dump(ev, f, indent=1, default=str)
    for l in lines:
        print(l)
    print('%s tier=%s seed=%s theorems=%d/%d cases=%d compared=%d disagreements=%d broken=%d wall=%.1fs -> %s' % (
        pid, tier, seed, discharged, obligations, len(cases), compared, n_dis, len(broken), time.time() - t0,
        'FAIL' if status else 'ok'))
    return status


def _note_failure(prop, c, f, known_open, known_hits, violations):
    k = safe(prop.known_key, c, f)
    if k is not None and (prop.pid, k) in known_open:
        known_hits.setdefault(k, (c, f))
    else:
        violations.append((c, f))


def replay(prop, path):
    use_repo()
    d = json.load(open(path))
    if d.get('kind') == 'unproved':
        print('replay: unproved obligation(s):')
        for b in d.get('broken', []):
            print('  ', json.dumps(b, default=str)[:400])
        print('re-run ./check %s to re-check them' % prop.pid)
        return 1
    c = d['case']
    f = safe(prop.oracle, c)
    print('case:', json.dumps(c, default=str)[:1000])
    mc = safe(prop.model_case, c)
    if isinstance(mc, dict):
        print('impl:', safe(prop.impl, mc))
    print('oracle:', f)
    return 1 if f is not None else 0
