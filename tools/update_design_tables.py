#!/usr/bin/env python3
"""rewrite the generated tables of DESIGN.md (between the BEGIN/END markers) from seeded/ and benign/ results"""
import io, json, os, re, subprocess, sys
VERIF = os.path.dirname(os.path.dirname(os.path.abspath(__file__)))
p = os.path.join(VERIF, 'DESIGN.md')
s = open(p).read()
tab = subprocess.run([sys.executable, os.path.join(VERIF, 'tools', 'seeded_report.py')], stdout=subprocess.PIPE, text=True).stdout
rows = ['| id | property | files | verdict of the check on the refactored tree |', '|---|---|---|---|']
b = os.path.join(VERIF, 'benign')
for rid in sorted(os.listdir(b)):
    try:
        m = json.load(open(os.path.join(b, rid, 'meta.json'))); r = json.load(open(os.path.join(b, rid, 'result.json')))
    except OSError:
        continue
    v = 'silent (exit 0)' if r['check_rc'] == 0 else ('VIOLATION no-failing-input-found' if r['violation_lines'] and 'no-failing' in r['violation_lines'][0] else 'VIOLATION with counterexample (false alarm!)')
    rows.append('| %s | %s | %s | %s |' % (rid, r.get('property'), ', '.join(m.get('files', []))[:90], v))
def put(s, name, body):
    a, z = '<!-- BEGIN %s -->' % name, '<!-- END %s -->' % name
    if a not in s:
        return s + '\n' + a + '\n' + body + '\n' + z + '\n'
    return s[:s.index(a) + len(a)] + '\n' + body + '\n' + s[s.index(z):]
# fixes table from known_findings.jsonl (status fixed) + commit subjects of /repo
frows = ['| prop | commit | subject of the `fix:` commit | failing input before the fix |', '|---|---|---|---|']
nfix = 0
for l in open(os.path.join(VERIF, 'known_findings.jsonl')):
    l = l.strip()
    if not l:
        continue
    d = json.loads(l)
    if d.get('status') != 'fixed':
        continue
    nfix += 1
    subj = subprocess.run(['git', '-C', os.environ.get('VERIF_REPO', '/repo'), 'log', '-1', '--format=%s', d['commit']],
                          stdout=subprocess.PIPE, stderr=subprocess.DEVNULL, text=True).stdout.strip()
    what = re.sub(r'^fixed: property=\S+ \S+ ', '', d['line']).replace('|', '\\|')
    frows.append('| %s | `%s` | %s | %s |' % (d['property'], d['commit'], subj.replace('fix: ', '').replace('|', '\\|'), what))
s = put(s, 'FIXES', '\n'.join(frows) + '\n\n%d `fix:` commits in all.' % nfix)
# theorem counts of the status table from the evidence files
def thm(m):
    try:
        ev = json.load(open(os.path.join(VERIF, 'evidence', m.group(1) + '.json')))
        n = ev.get('coverage', {}).get('obligations')
        return '| %s | %s |' % (m.group(1), n if n else m.group(2))
    except (OSError, ValueError):
        return m.group(0)
# rows of the status table (12.3) from tools/design_status_rows.json when present
try:
    ROWS = json.load(open(os.path.join(VERIF, 'tools', 'design_status_rows.json')))
except (OSError, ValueError):
    ROWS = {}
def row(m):
    r = ROWS.get(m.group(1))
    if not r:
        return m.group(0)
    esc = lambda t: str(t).replace('|', '\\|').replace('\n', ' ')
    return '| %s | %s | %s | %s | %s |' % (m.group(1), m.group(2), esc(r['proved']), esc(r['partial']), esc(r['tie']))
s = re.sub(r'^\| (C\d\d) \| (\d+) \| .* \| .* \| .* \|$', row, s, flags=re.M)
s = re.sub(r'^\| (C\d\d) \| (\d+) \|', thm, s, flags=re.M)
s = re.sub(r'Repaired defects: \d+', 'Repaired defects: %d' % nfix, s)
s = put(s, 'SEEDED', tab)
s = put(s, 'BENIGN', '\n'.join(rows))
open(p, 'w').write(s)
print('updated')
