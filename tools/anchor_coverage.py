#!/venv/bin/python
"""Which statements of the anchored (hand-modelled / translated) chempy functions does a check actually execute?

  tools/anchor_coverage.py Cxx [Cyy ...]      (quick tier, seed from VERIF_SEED)

Runs `tools/check.py Cxx` under coverage.py (branch coverage, source = <repo>/chempy), then, for every anchor
(file, function) of the property, lists the statements the run never executed.  Output: notes/coverage/Cxx.md
(a review aid: an unexecuted statement of an anchor is a branch that neither the correspondence nor the oracle has
seen, so a change there can only be noticed through a proof obligation).  It is not part of any registered check
and never decides a property.  Evidence files are not touched (the run uses a scratch evidence directory).
"""
import ast, json, os, subprocess, sys, tempfile

VERIF = os.path.dirname(os.path.dirname(os.path.abspath(__file__)))
REPO = os.environ.get('VERIF_REPO', '/repo')
sys.path.insert(0, os.path.join(VERIF, 'tools'))


def func_range(src, name):
    node = ast.parse(src)
    for part in name.split('.'):
        node = next(n for n in ast.walk(node) if isinstance(n, (ast.FunctionDef, ast.ClassDef)) and n.name == part)
    return node.lineno, node.end_lineno


def one(pid):
    import importlib
    prop = importlib.import_module('harness.' + pid.lower()).PROPERTY
    tmp = tempfile.mkdtemp(prefix='cov_')
    data = os.path.join(tmp, 'cov')
    env = dict(os.environ, COVERAGE_FILE=data, VERIF_EVIDENCE_DIR=os.path.join(tmp, 'ev'))
    cmd = ['/venv/bin/python', '-m', 'coverage', 'run', '--branch', '--source', os.path.join(REPO, 'chempy'),
           os.path.join(VERIF, 'tools', 'check.py'), pid]
    p = subprocess.run(cmd, cwd=VERIF, env=env, stdout=subprocess.PIPE, stderr=subprocess.STDOUT, text=True)
    tail = [l for l in p.stdout.splitlines() if 'conda.cli' not in l][-3:]
    js = os.path.join(tmp, 'cov.json')
    subprocess.run(['/venv/bin/python', '-m', 'coverage', 'json', '-o', js, '--data-file', data], cwd=VERIF,
                   stdout=subprocess.DEVNULL, stderr=subprocess.DEVNULL)
    cov = json.load(open(js))['files']
    lines = ['# %s — statements of the anchored functions not executed by `./check %s` (quick)' % (pid, pid), '',
             'check: exit %d; %s' % (p.returncode, ' | '.join(tail)), '']
    tot = miss = 0
    for rel, name in prop.anchors:
        path = os.path.join(REPO, rel)
        f = cov.get(path) or cov.get(os.path.relpath(path, VERIF)) or {}
        src = open(path, encoding='utf-8').read()
        try:
            lo, hi = func_range(src, name) if name else (1, len(src.splitlines()))
        except StopIteration:
            lines.append('* `%s::%s` — anchor not found in the source' % (rel, name))
            continue
        ex = [l for l in f.get('executed_lines', []) if lo <= l <= hi]
        ms = [l for l in f.get('missing_lines', []) if lo <= l <= hi]
        tot += len(ex) + len(ms)
        miss += len(ms)
        if not f:
            lines.append('* `%s::%s` — file never imported during the run' % (rel, name))
        elif ms:
            sl = src.splitlines()
            lines.append('* `%s::%s` (%d–%d): %d of %d statements not executed' % (rel, name, lo, hi, len(ms), len(ex) + len(ms)))
            for l in ms:
                lines.append('    - %d: `%s`' % (l, sl[l - 1].strip()[:110]))
        else:
            lines.append('* `%s::%s`: all %d statements executed' % (rel, name, len(ex)))
    lines.insert(3, 'anchored statements: %d, not executed: %d' % (tot, miss))
    os.makedirs(os.path.join(VERIF, 'notes', 'coverage'), exist_ok=True)
    open(os.path.join(VERIF, 'notes', 'coverage', pid + '.md'), 'w').write('\n'.join(lines) + '\n')
    subprocess.run(['rm', '-rf', tmp])
    print(pid, 'anchored statements', tot, 'not executed', miss, 'check rc', p.returncode)


for pid in sys.argv[1:]:
    one(pid)
