#!/bin/bash
# run every registered check (quick tier by default) on /repo and summarise; evidence files are rewritten
cd "$(dirname "$0")/.."
TIER=${1:-quick}
SEED=${VERIF_SEED:-1}
ids=$(python3 -c "import json; print(' '.join(c['property_id'] for c in json.load(open('MANIFEST.json'))['checks']))")
rc=0
for p in $ids; do
  out=$(VERIF_SEED=$SEED VERIF_TIER=$TIER ./check $p 2>/dev/null); r=$?
  echo "$out" | grep -E "VIOLATION|KNOWN-FINDING" | cut -c1-160
  echo "$out" | tail -1
  [ $r -ne 0 ] && rc=1
done
exit $rc
