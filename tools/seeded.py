#!/usr/bin/env python3
"""Confirm and run seeded mutants.

  seeded.py confirm /tmp/seeded/C03_a      -> checks (in a scratch worktree) demo passes clean, baseline passes with the
                                              patch, demo fails with the patch; then copies it to /verif/seeded/C03_a
  seeded.py run [ids...] [--tier quick]    -> for each /verif/seeded/<id>: scratch copy of /repo + patch, VERIF_REPO=copy ./check Cxx,
                                              records exit status and VIOLATION line in seeded/<id>/result.json
"""
import json, os, shutil, subprocess, sys, tempfile, time

VERIF = os.path.dirname(os.path.dirname(os.path.abspath(__file__)))


def sh(cmd, **kw):
    p = subprocess.run(cmd, shell=isinstance(cmd, str), stdout=subprocess.PIPE, stderr=subprocess.STDOUT, text=True, **kw)
    return p.returncode, '\n'.join(l for l in p.stdout.splitlines() if 'conda.cli' not in l)


def scratch():
    d = tempfile.mkdtemp(prefix='seedwt_', dir='/tmp')
    os.rmdir(d)
    rc, out = sh(['git', '-C', '/repo', 'worktree', 'add', '-q', '--detach', d, 'HEAD'])
    assert rc == 0, out
    return d


def drop(d):
    sh(['git', '-C', '/repo', 'worktree', 'remove', '--force', d])
    shutil.rmtree(d, ignore_errors=True)


def confirm(src):
    mid = os.path.basename(src.rstrip('/'))
    meta = json.load(open(os.path.join(src, 'meta.json')))
    d = scratch()
    res = {'id': mid}
    try:
        rc, out = sh(['/venv/bin/python', os.path.join(src, 'demo.py'), d], cwd=d)
        res['demo_clean_rc'] = rc
        rc, out = sh(['git', '-C', d, 'apply', os.path.join(src, 'patch.diff')])
        res['apply_rc'] = rc
        if rc == 0:
            rc, out = sh(['python3', os.path.join(VERIF, 'tools', 'baseline.py'), d])
            res['baseline_rc'] = rc
            res['baseline'] = out.splitlines()[-1] if out else ''
            rc, out = sh(['/venv/bin/python', os.path.join(src, 'demo.py'), d], cwd=d)
            res['demo_mutant_rc'] = rc
            res['demo_mutant_tail'] = out[-400:]
    finally:
        drop(d)
    ok = res.get('demo_clean_rc') == 0 and res.get('apply_rc') == 0 and res.get('baseline_rc') == 0 and res.get('demo_mutant_rc', 0) != 0
    res['confirmed'] = ok
    print(json.dumps(res, indent=1))
    if ok:
        dst = os.path.join(VERIF, 'seeded', mid)
        os.makedirs(dst, exist_ok=True)
        for fn in ('patch.diff', 'demo.py'):
            shutil.copy(os.path.join(src, fn), os.path.join(dst, fn))
        meta['confirmed_by'] = ('scratch worktree of /repo HEAD: demo.py exit 0 on clean tree; patch applies; tools/baseline.py: all 510 '
                                'baseline tests pass with the patch; demo.py exits non-zero with the patch')
        meta['confirm_result'] = res
        json.dump(meta, open(os.path.join(dst, 'meta.json'), 'w'), indent=1)
    return ok


def run(ids, tier):
    base = os.path.join(VERIF, 'seeded')
    ids = ids or sorted(x for x in os.listdir(base) if os.path.isdir(os.path.join(base, x)))
    summary = {}
    for mid in ids:
        mdir = os.path.join(base, mid)
        meta = json.load(open(os.path.join(mdir, 'meta.json')))
        pid = meta['property']
        d = scratch()
        try:
            rc, out = sh(['git', '-C', d, 'apply', os.path.join(mdir, 'patch.diff')])
            assert rc == 0, out
            env = dict(os.environ, VERIF_REPO=d, VERIF_TIER=tier)
            t0 = time.time()
            rc, out = sh([os.path.join(VERIF, 'check'), pid], env=env, cwd=VERIF)
            viol = [l for l in out.splitlines() if l.startswith('VIOLATION')]
            res = {'check_rc': rc, 'violation_lines': viol, 'tail': out.splitlines()[-3:], 'tier': tier, 'wall_s': round(time.time() - t0, 1)}
            if viol and 'replay=' in viol[0]:
                rp = viol[0].split('replay=')[1].split()[0]
                try:
                    r = json.load(open(os.path.join(VERIF, rp)))
                    res['replay_kind'] = r.get('kind')
                    res['replay_case'] = json.dumps(r.get('case'))[:300]
                    res['replay_failure'] = str(r.get('failure'))[:300]
                except Exception as e:
                    res['replay_error'] = str(e)
        finally:
            drop(d)
        json.dump(res, open(os.path.join(mdir, 'result.json'), 'w'), indent=1)
        summary[mid] = (res['check_rc'], res.get('replay_kind'), 'no-failing-input-found' in ' '.join(viol))
        print(mid, summary[mid], flush=True)
    # restore Gen files from the real /repo
    sh(['/venv/bin/python', '-c', "import sys; sys.path.insert(0,'%s/tools'); from lib import framework; framework.extract_all()" % VERIF])
    return summary


if __name__ == '__main__':
    a = sys.argv[1:]
    if a[0] == 'confirm':
        sys.exit(0 if all([confirm(x) for x in a[1:]]) else 1)
    elif a[0] == 'run':
        tier = 'quick'
        if '--tier' in a:
            i = a.index('--tier'); tier = a[i + 1]; del a[i:i + 2]
        run(a[1:], tier)
