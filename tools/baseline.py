#!/usr/bin/env python3
"""Run the pinned baseline test-suite on a chempy tree and compare with BASELINE.json.

usage: baseline.py [TREE]      (default /repo)
exit 0 iff every test in BASELINE.stable_pass passes on TREE.
"""
import json, os, subprocess, sys, tempfile, xml.etree.ElementTree as ET

def main():
    tree = sys.argv[1] if len(sys.argv) > 1 else '/repo'
    base = json.load(open('/root/.vp/BASELINE.json'))
    want = set(base['stable_pass'])
    with tempfile.TemporaryDirectory() as td:
        xml = os.path.join(td, 'r.xml')
        env = dict(os.environ)
        env.pop('CHEMPY_VERIF', None)
        p = subprocess.run(['/venv/bin/python', '-m', 'pytest', '-ra', '-q', '-p', 'no:cacheprovider',
                            '--timeout=900', '--continue-on-collection-errors', '--junitxml=' + xml],
                           cwd=tree, env=env, stdout=subprocess.PIPE, stderr=subprocess.STDOUT, text=True)
        passed, failed = set(), set()
        for tc in ET.parse(xml).getroot().iter('testcase'):
            tid = (tc.get('classname') or '') + '::' + (tc.get('name') or '')
            bad = any(ch.tag in ('failure', 'error') for ch in tc)
            skipped = any(ch.tag == 'skipped' for ch in tc)
            if bad:
                failed.add(tid)
            elif not skipped:
                passed.add(tid)
    passed -= failed
    missing = sorted(want - passed)
    print('baseline: %d wanted, %d passed here, %d of the wanted not passing' % (len(want), len(passed), len(missing)))
    for m in missing[:40]:
        print('  NOT PASSING:', m)
    sys.exit(1 if missing else 0)

if __name__ == '__main__':
    main()
